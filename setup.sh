#!/bin/sh
# Offline build of the simulation engines (go1.26.8, -tags verif) + a small determinism self-test.
set -e
cd "$(dirname "$0")"
cp /repo/go.sum dst/go.sum.repo 2>/dev/null || true
./check --build
