#!/bin/sh
# background thorough sweep on a snapshot of /repo HEAD
export DC4BC_REPO=$VP_RUN_REPO VERIF_SEED=${SEED:-777} VERIF_BUDGET_S=${B:-240}
for p in C14 C16 C13 C09 C18 C20 C02 C08 C15 C11 C07 C06 C05 C19 C10 C12 C01 C03 C04; do
  ./check $p thorough > sweep_$p.log 2>&1; echo "$p exit $? $(grep -c '^VIOLATION' sweep_$p.log) violations $(grep -c '^KNOWN-FINDING' sweep_$p.log) known"; grep '^VIOLATION' sweep_$p.log | head -5
done
echo SWEEP-DONE
