#!/bin/sh
# usage: wave.sh <id>...  -- validate each agent worktree /tmp/mut/<id>, then run the property's own quick check against the stored patch
mkdir -p /tmp/x
for id in "$@"; do
  prop=$(echo $id | cut -c1-3)
  log=/tmp/x/wave_$id.log
  if [ ! -f /verif/seeded/$id/patch.diff ]; then
    python3 /verif/tools/validate_mutant.py /tmp/mut/$id $id > $log.val 2>&1
  fi
  if [ ! -f /verif/seeded/$id/patch.diff ]; then echo "$id NOT-CONFIRMED (see $log.val)"; continue; fi
  b=30; case $prop in C13|C12) b=60;; C14|C20|C08) b=45;; esac
  /verif/tools/try_mutant.sh $id $prop $b > $log 2>&1
  echo "$id $(tail -1 $log) | $(grep -c '^VIOLATION' $log) violation lines | $(grep -m1 'signature:' $log)"
done
echo WAVE-BATCH-DONE
