#!/bin/sh
# usage: try_mutant_iso.sh <seeded-id> <PROP> [budget_s]
# like try_mutant.sh, but touches neither /repo's working tree nor /verif's evidence: the patch is applied to a scratch
# worktree of /repo HEAD and the check runs from a scratch copy of /verif built against that worktree (DC4BC_REPO).
id=$1; prop=$2; b=${3:-40}
wt=/tmp/mutrun/$id; vc=/tmp/vrun/$id
git -C /repo worktree remove --force $wt >/dev/null 2>&1; rm -rf $wt $vc; mkdir -p /tmp/mutrun /tmp/vrun
git -C /repo worktree add -q --detach $wt ${BASE:-HEAD} || exit 2
( cd $wt && { git apply /verif/seeded/$id/patch.diff || git apply --3way /verif/seeded/$id/patch.diff; } ) || { echo "patch does not apply"; git -C /repo worktree remove --force $wt; exit 2; }
if [ -n "$ISO_HEAD" ]; then mkdir -p $vc && git -C /verif archive HEAD -- . ":(exclude)seeded" ":(exclude)replays" | tar -x -C $vc && mkdir -p $vc/replays; else rsync -a --exclude bin --exclude .git --exclude seeded /verif/ $vc/; fi
( cd $vc && DC4BC_REPO=$wt VERIF_BUDGET_S=$b ./check $prop quick ); rc=$?
git -C /repo worktree remove --force $wt; rm -rf $wt $vc
echo "try_mutant $id $prop -> exit $rc"
exit $rc
