#!/bin/sh
# usage: wave_iso.sh <id>...  -- validate each agent worktree /tmp/mut/<id> (fresh scratch worktree), store it under seeded/, then run the
# property's quick check against it in isolation (scratch copy of /verif + scratch worktree of /repo)
mkdir -p /tmp/x
for id in "$@"; do
  prop=$(echo $id | cut -c1-3)
  python3 /verif/tools/validate_mutant.py /tmp/mut/$id $id > /tmp/x/val_$id.log 2>&1
  if [ ! -f /verif/seeded/$id/patch.diff ]; then echo "$id NOT-CONFIRMED (see /tmp/x/val_$id.log)"; continue; fi
  b=30; case $prop in C13|C12) b=60;; C14|C20|C08) b=45;; esac
  /verif/tools/try_mutant_iso.sh $id $prop $b > /tmp/x/wave_$id.log 2>&1
  echo "$id $(tail -1 /tmp/x/wave_$id.log) | $(grep -c '^VIOLATION' /tmp/x/wave_$id.log) violation lines | $(grep -m1 'signature:' /tmp/x/wave_$id.log)"
done
