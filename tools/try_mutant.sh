#!/bin/sh
# usage: try_mutant.sh <seeded-id> <PROP> [budget_s]   -- applies /verif/seeded/<id>/patch.diff to /repo, runs the check, reverts.
id=$1; prop=$2; b=${3:-40}
cd /repo || exit 2
git diff --quiet || { echo "/repo working tree not clean"; exit 2; }
git apply /verif/seeded/$id/patch.diff || git apply --3way /verif/seeded/$id/patch.diff || { echo "patch does not apply"; git reset -q --hard HEAD; exit 2; }
if git status --short | grep -q '^UU'; then echo "patch does not apply (conflict)"; git reset -q --hard HEAD; exit 2; fi
git reset -q
cd /verif && VERIF_BUDGET_S=$b ./check $prop quick; rc=$?
git -C /repo reset -q --hard HEAD
echo "try_mutant $id $prop -> exit $rc"
exit $rc
