#!/usr/bin/env python3
"""Independent confirmation of a seeded change produced by a sub-agent.

usage: validate_mutant.py <agent-worktree> <seeded-id>

In a FRESH scratch worktree of /repo HEAD (outside /repo and /verif):
  1. git apply MUTATION.diff           (must apply)
  2. go build ./...                    (must compile)
  3. stable suite (all packages but the flaky root client package) must pass
  4. copy the demonstration in, run it -> must FAIL
  5. git apply -R MUTATION.diff, run it -> must PASS
Then stores /verif/seeded/<id>/{patch.diff, demo/..., meta.json} and removes the scratch worktree.
"""
import json, os, shutil, subprocess, sys, time

src, sid = sys.argv[1], sys.argv[2]
ENV = dict(os.environ, GOFLAGS="-mod=mod", GOPROXY="off", GOSUMDB="off", GOTOOLCHAIN="local")
wt = "/tmp/mutval/" + sid
out = "/verif/seeded/" + sid


def sh(cmd, cwd, timeout=1500):
    p = subprocess.run(cmd, shell=True, cwd=cwd, env=ENV, stdout=subprocess.PIPE, stderr=subprocess.STDOUT, text=True, timeout=timeout)
    return p.returncode, p.stdout


subprocess.run(["git", "-C", "/repo", "worktree", "remove", "--force", wt], capture_output=True)
shutil.rmtree(wt, ignore_errors=True)
os.makedirs("/tmp/mutval", exist_ok=True)
rc, o = sh("git -C /repo worktree add -q --detach %s HEAD" % wt, "/")
assert rc == 0, o
res = {"id": sid, "steps": {}}
try:
    meta = json.load(open(os.path.join(src, "META.json")))
    patch = open(os.path.join(src, "MUTATION.diff")).read()
    open(os.path.join(wt, "MUTATION.diff"), "w").write(patch)
    rc, o = sh("git apply --3way MUTATION.diff || git apply MUTATION.diff", wt)
    res["steps"]["apply"] = rc == 0
    if rc != 0:
        res["apply_output"] = o[-1500:]
        raise SystemExit
    sh("git reset -q", wt)
    # re-base the patch on the current HEAD (context may have moved)
    rc, o = sh("git diff -- . ':(exclude)MUTATION.diff'", wt)
    if o.strip():
        patch = o
        open(os.path.join(wt, "MUTATION.diff"), "w").write(patch)
    rc, o = sh("go build ./... 2>&1 | grep -v 'GNU-stack\\|deprecated\\|^#' ; exit ${PIPESTATUS[0]}", wt)
    rc, o = sh("go build ./...", wt)
    res["steps"]["build"] = rc == 0
    t0 = time.time()
    rc, o = sh("go test -vet=off -count=1 -timeout 20m $(go list ./... | grep -v 'dc4bc/client$')", wt)
    if rc != 0:
        # packages that share fixed /tmp paths (e.g. /tmp/airgapped_test) collide
        # with runs in other worktrees: re-run each failing package alone
        import re as _re
        failing = sorted(set(_re.findall(r"^FAIL\t(\S+)", o, _re.M)))
        still = []
        for pkg in failing:
            ok = False
            for attempt in range(8):
                time.sleep(2 + attempt)
                rc2, o2 = sh("go test -vet=off -count=1 -timeout 20m %s" % pkg, wt)
                if rc2 == 0:
                    ok = True
                    break
                if "resource temporarily unavailable" not in o2 and attempt >= 2:
                    break
            if not ok:
                still.append(pkg)
        if failing and not still:
            rc = 0
            res["suite_note"] = "packages re-run alone after a collision on shared /tmp paths: %s" % failing
    res["steps"]["stable_suite_passes_with_change"] = rc == 0
    res["suite_s"] = round(time.time() - t0)
    if rc != 0:
        res["suite_output"] = "\n".join(l for l in o.splitlines() if "FAIL" in l or "panic" in l)[-2000:]
    # demo files = untracked files of the agent's worktree
    rc, o = sh("git status --porcelain --untracked-files=all", src)
    demos = []
    for l in o.splitlines():
        if l[:2] == "??":
            f = l[3:].strip()
            if f in ("MUTATION.diff", "DEMO.md", "META.json", "TASK.md") or f.endswith(".orig") or f.endswith(".rej"):
                continue
            demos.append(f)
    res["demo_files"] = demos
    for f in demos:
        os.makedirs(os.path.dirname(os.path.join(wt, f)) or wt, exist_ok=True)
        if os.path.isdir(os.path.join(src, f)):
            shutil.copytree(os.path.join(src, f), os.path.join(wt, f), dirs_exist_ok=True)
        else:
            shutil.copy(os.path.join(src, f), os.path.join(wt, f))
    cmd = meta["demo_cmd"].replace(src.rstrip("/"), wt)
    res["demo_cmd"] = cmd
    cmd = "timeout -k 5 420 bash -c %s" % __import__("shlex").quote(cmd)
    rc1, o1 = sh(cmd, wt, 900)
    res["steps"]["demo_fails_with_change"] = rc1 != 0
    res["demo_with_tail"] = o1[-1200:]
    rc, o = sh("git apply -R MUTATION.diff", wt)
    assert rc == 0, o
    rc2, o2 = sh(cmd, wt, 900)
    res["steps"]["demo_passes_without_change"] = rc2 == 0
    res["demo_without_tail"] = o2[-600:]
    ok = all(res["steps"].values())
    res["confirmed"] = ok
    if ok:
        shutil.rmtree(out, ignore_errors=True)
        os.makedirs(os.path.join(out, "demo"), exist_ok=True)
        open(os.path.join(out, "patch.diff"), "w").write(patch)
        for f in demos:
            d = os.path.join(out, "demo", f)
            os.makedirs(os.path.dirname(d), exist_ok=True)
            if os.path.isdir(os.path.join(src, f)):
                shutil.copytree(os.path.join(src, f), d, dirs_exist_ok=True)
            else:
                shutil.copy(os.path.join(src, f), d)
        if os.path.exists(os.path.join(src, "DEMO.md")):
            shutil.copy(os.path.join(src, "DEMO.md"), os.path.join(out, "demo", "DEMO.md"))
        m = {"id": sid, "property": meta.get("property"), "summary": meta.get("summary"), "needs": meta.get("needs"),
             "files_changed": meta.get("files_changed"), "demo_cmd": meta.get("demo_cmd"),
             "base_commit": subprocess.run(["git", "-C", "/repo", "rev-parse", "HEAD"], capture_output=True, text=True).stdout.strip(),
             "confirmed_by_me": {"how": "fresh scratch worktree of /repo HEAD under /tmp/mutval: patch applies; go build ./... ok; stable suite (all packages except the flaky root client package) passes with the change; demonstration fails with the change and passes with the patch reversed",
                                 "steps": res["steps"], "suite_s": res["suite_s"]},
             "checks_run": []}
        json.dump(m, open(os.path.join(out, "meta.json"), "w"), indent=1)
finally:
    subprocess.run(["git", "-C", "/repo", "worktree", "remove", "--force", wt], capture_output=True)
    shutil.rmtree(wt, ignore_errors=True)
    print(json.dumps(res, indent=1))
