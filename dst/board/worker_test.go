package board

import (
	"os"
	"testing"

	"dst/sim"
)

// TestBoardChild is the entry point of a child writer process (see childProc).
func TestBoardChild(t *testing.T) {
	spec := os.Getenv("DST_BOARD_CHILD")
	if spec == "" {
		t.Skip("child entry point")
	}
	ChildMain(spec)
}

func TestWorker(t *testing.T) {
	sim.WorkerMain(t, "board", RunOne)
}
