package board

import (
	"testing"

	"dst/sim"
)

func TestWorker(t *testing.T) {
	sim.WorkerMain(t, "board", RunOne)
}
