// Package board is the engine for the real FileStorage: several handles on one
// data file and one lock file, writer/reader tasks whose progress inside
// send/GetMessages is decided by the tape at the hook yields (H4), message
// sizes up to the reader's line limit, ignore lists, and a porcupine check of
// the recorded history against a sequential log model.
package board

import (
	"bufio"
	"bytes"
	"encoding/base64"
	"encoding/json"
	"fmt"
	"io"
	"os"
	"os/exec"
	"path/filepath"
	"runtime"
	"runtime/debug"
	"sort"
	"strconv"
	"strings"
	"sync"
	"testing"
	"time"

	"github.com/anishathalye/porcupine"
	"github.com/juju/fslock"

	"github.com/lidofinance/dc4bc/storage"
	"github.com/lidofinance/dc4bc/storage/file_storage"

	"dst/sim"
)

type opKind int

const (
	opSend opKind = iota
	opRead
	opIgnore
)

type op struct {
	kind  opKind
	sizes []int // send: payload size of each message of the batch
	from  uint64
	tags  []string
	poll  bool // read like a poller: from = number of entries this task has consumed so far
	// ignore: entries this handle is told to ignore from now on, picked (at execution
	// time, counted back from the newest entry known) by id or by offset
	ignBack     []int
	ignByOff    bool
	ignFromFile bool // the entries are picked from the newest lines of the file itself, whoever wrote them
}

type task struct {
	id     int
	h      storage.Storage
	ops    []op
	gid    int64
	grant  chan struct{}
	parked string // yield point name, "" when running/finished
	done   bool
	panicV interface{}
	// per-message invoke/return stamps of the send in progress (a batched
	// Send is a sequence of single appends: the property does not claim
	// that a batch is contiguous)
	msgCall []int64
	msgRet  []int64
	child   *childProc // non-nil: this writer is a separate OS process
	opIdx   int
	lineCnt int
	seen    uint64 // poll-style reads: entries consumed so far through this handle
	// node style: this task shares its handle with another task (a node's poller reads
	// through the handle its API goroutine sends through). Such a task may have to wait
	// for an in-process lock of the handle that its parked sibling holds.
	shared   bool
	lockWait bool
	// ignore list given to this task's handle so far (as offsets); a task with an
	// ignore list keeps its reads out of the linearizability history
	ign       map[uint64]bool // shared with the task that shares the handle
	hasIgnore bool
	mate      *task // the other task on the same handle, if any
}

type entryInfo struct {
	tag, id string
	off     uint64
}

// childProc is a writer running in another OS process (the same test binary in
// child mode): it opens its own FileStorage on the same data and lock files and
// performs one Send per command line. It exercises the lock between processes.
type childProc struct {
	cmd *exec.Cmd
	in  io.WriteCloser
	out *bufio.Reader
}

func startChild(data, lock string) (*childProc, error) {
	exe, err := os.Executable()
	if err != nil {
		return nil, err
	}
	cmd := exec.Command(exe, "-test.run", "^TestBoardChild$", "-test.timeout", "0")
	cmd.Env = append(os.Environ(), "DST_BOARD_CHILD="+data+"|"+lock, "DST_SCENARIO=")
	in, err := cmd.StdinPipe()
	if err != nil {
		return nil, err
	}
	outp, err := cmd.StdoutPipe()
	if err != nil {
		return nil, err
	}
	if err := cmd.Start(); err != nil {
		return nil, err
	}
	c := &childProc{cmd: cmd, in: in, out: bufio.NewReader(outp)}
	if line, err := c.out.ReadString('\n'); err != nil || strings.TrimSpace(line) != "ready" {
		c.stop()
		return nil, fmt.Errorf("child did not start: %q %v", line, err)
	}
	return c, nil
}

func (c *childProc) stop() {
	if c == nil {
		return
	}
	_, _ = io.WriteString(c.in, "quit\n")
	_ = c.in.Close()
	done := make(chan struct{})
	go func() { _ = c.cmd.Wait(); close(done) }()
	select {
	case <-done:
	case <-time.After(5 * time.Second):
		_ = c.cmd.Process.Kill()
	}
}

// send lets the child append the batch; it returns the offsets the child was told.
func (c *childProc) send(event string, tags []string, sizes []int) ([]uint64, error) {
	var sb strings.Builder
	fmt.Fprintf(&sb, "send %s", event)
	for i := range tags {
		fmt.Fprintf(&sb, " %s:%d", tags[i], sizes[i])
	}
	sb.WriteString("\n")
	if _, err := io.WriteString(c.in, sb.String()); err != nil {
		return nil, err
	}
	type rep struct {
		line string
		err  error
	}
	ch := make(chan rep, 1)
	go func() { l, e := c.out.ReadString('\n'); ch <- rep{l, e} }()
	select {
	case r := <-ch:
		if r.err != nil {
			return nil, r.err
		}
		f := strings.Fields(r.line)
		if len(f) == 0 || f[0] != "ok" {
			return nil, fmt.Errorf("child: %s", strings.TrimSpace(r.line))
		}
		var offs []uint64
		for _, x := range f[1:] {
			v, _ := strconv.ParseUint(x, 10, 64)
			offs = append(offs, v)
		}
		return offs, nil
	case <-time.After(30 * time.Second):
		return nil, fmt.Errorf("child did not answer within 30 s")
	}
}

// ChildMain is the body of the child process.
func ChildMain(spec string) {
	parts := strings.SplitN(spec, "|", 2)
	h, err := file_storage.NewFileStorage(parts[0], parts[1])
	if err != nil {
		fmt.Println("error", err)
		return
	}
	fmt.Println("ready")
	rd := bufio.NewReaderSize(os.Stdin, 1<<16)
	for {
		line, err := rd.ReadString('\n')
		if err != nil {
			return
		}
		f := strings.Fields(line)
		if len(f) == 0 {
			continue
		}
		if f[0] == "quit" {
			return
		}
		if f[0] == "send" && len(f) >= 3 {
			var msgs []storage.Message
			for _, spec := range f[2:] {
				ts := strings.SplitN(spec, ":", 2)
				sz, _ := strconv.Atoi(ts[1])
				msgs = append(msgs, withFields(storage.Message{Event: f[1], Data: payload(ts[0], sz)}, ts[0]))
			}
			if err := h.Send(msgs...); err != nil {
				fmt.Println("error", strings.ReplaceAll(err.Error(), "\n", " "))
				continue
			}
			out := "ok"
			for _, m := range msgs {
				out += " " + strconv.FormatUint(m.Offset, 10)
			}
			fmt.Println(out)
		}
	}
}

type histOp struct {
	client int
	input  logInput
	output logOutput
	call   int64
	ret    int64
}

type logInput struct {
	Send []string // tags appended (in order), nil for a read
	From uint64
}

type logOutput struct {
	Offsets []uint64 // offsets the sender was told
	Tags    []string // tags a read returned
	Err     bool
}

type world struct {
	tp       *sim.Tape
	log      *sim.EventLog
	stats    *sim.Stats
	dir      string
	data     string
	lock     string
	mu       sync.Mutex
	byGid    map[int64]*task
	tasks    []*task
	event    chan *task // a task parked or finished
	seq      int64
	hist     []histOp
	sent     map[string]bool // every tag whose Send returned without error
	viol     *sim.Violation
	lastFull []string
	entries  []entryInfo // every entry appended by an in-process Send that returned (id and offset as returned)
	// long-log mode
	prefilled int
	lineEvery int
}

func (w *world) fail(sig, detail string) {
	if w.viol == nil {
		w.viol = &sim.Violation{Property: "C16", Signature: sig, Detail: detail}
		w.log.Add("VIOLATION C16 %s", sig)
	}
}

// yield is installed as file_storage.SimYield.
func (w *world) yield(point string) {
	gid := sim.GoID()
	w.mu.Lock()
	t := w.byGid[gid]
	w.mu.Unlock()
	if t == nil {
		return // not a simulator task (the scheduler's own oracle reads)
	}
	switch point {
	case "get.line", "send.countLine":
		// yields inside the scan loops (one per line): taken every lineEvery-th line only
		t.lineCnt++
		if w.lineEvery <= 0 || t.lineCnt%w.lineEvery != 0 {
			return
		}
		w.stats.Fault("preempt-inside-a-scan")
	case "send.beforeLock":
		t.msgCall = append(t.msgCall, w.tick())
	case "send.afterUnlock":
		t.msgRet = append(t.msgRet, w.tick())
	}
	t.parked = point
	w.event <- t
	<-t.grant
	t.parked = ""
}

var tagPrefix = []byte("TAG:")

func payload(tag string, size int) []byte {
	b := make([]byte, 0, size+len(tag)+8)
	b = append(b, tagPrefix...)
	b = append(b, tag...)
	b = append(b, '|')
	for len(b) < size {
		b = append(b, byte('a'+len(b)%26))
	}
	return b
}

// withFields fills the envelope fields of a message as a function of its tag:
// recipient, sender, round id and signature are present in some entries and
// empty (or absent) in others, so that whatever an entry carries can be told
// from what its neighbours in the log carry.
func withFields(m storage.Message, tag string) storage.Message {
	if strings.HasPrefix(tag, "f") {
		return m // a foreign writer's sparse line: no envelope field but id, offset, event and data
	}
	h := 0
	for _, c := range tag {
		h = h*31 + int(c)
	}
	if h < 0 {
		h = -h
	}
	if h%3 != 0 {
		m.RecipientAddr = "to-" + tag
	}
	if h%5 != 0 {
		m.SenderAddr = "from-" + tag
	}
	if h%7 != 0 {
		m.DkgRoundID = "round-" + tag
	}
	switch h % 4 {
	case 0:
		m.Signature = nil
	case 1:
		m.Signature = []byte{}
	default:
		m.Signature = []byte("sig-" + tag)
	}
	return m
}

// contentDiff names the first envelope field of a read entry that is not what
// was sent under its tag ("" if all are).
func contentDiff(m storage.Message) string {
	tg := tagOf(m)
	if tg == "?" {
		return ""
	}
	want := withFields(storage.Message{}, tg)
	switch {
	case m.RecipientAddr != want.RecipientAddr:
		return fmt.Sprintf("recipient %q, sent %q", m.RecipientAddr, want.RecipientAddr)
	case m.SenderAddr != want.SenderAddr:
		return fmt.Sprintf("sender %q, sent %q", m.SenderAddr, want.SenderAddr)
	case m.DkgRoundID != want.DkgRoundID:
		return fmt.Sprintf("round id %q, sent %q", m.DkgRoundID, want.DkgRoundID)
	case !bytes.Equal(m.Signature, want.Signature):
		return fmt.Sprintf("signature %q, sent %q", m.Signature, want.Signature)
	}
	return ""
}

func tagOf(m storage.Message) string {
	if !bytes.HasPrefix(m.Data, tagPrefix) {
		return "?"
	}
	i := bytes.IndexByte(m.Data, '|')
	if i < 0 {
		return "?"
	}
	return string(m.Data[len(tagPrefix):i])
}

// nextIsSend tells whether the operation the task is about to start is a send.
func (t *task) nextIsSend() bool {
	return t.opIdx < len(t.ops) && t.ops[t.opIdx].kind == opSend
}

func (w *world) runTask(t *task) {
	defer func() {
		if r := recover(); r != nil {
			t.panicV = fmt.Sprintf("%v\n%s", r, debug.Stack())
		}
		t.done = true
		w.event <- t
	}()
	t.gid = sim.GoID()
	w.mu.Lock()
	w.byGid[t.gid] = t
	w.mu.Unlock()
	w.yield("task.start")
	for oi, o := range t.ops {
		t.opIdx = oi
		w.yield("op.start")
		call := w.tick()
		switch o.kind {
		case opSend:
			msgs := make([]storage.Message, len(o.sizes))
			for i, sz := range o.sizes {
				msgs[i] = withFields(storage.Message{Event: fmt.Sprintf("w%d-%d", t.id, oi), Data: payload(o.tags[i], sz)}, o.tags[i])
			}
			t.msgCall, t.msgRet = nil, nil
			var err error
			out := logOutput{}
			if t.child != nil {
				// the whole batch runs in the other process; the scheduler granted this step only
				// while the lock was free, and nobody else runs until the child has answered
				var offs []uint64
				offs, err = t.child.send(msgs[0].Event, o.tags, o.sizes)
				for i := range offs {
					if i < len(msgs) {
						msgs[i].Offset = offs[i]
					}
				}
				w.stats.Fault("send-by-child-process")
			} else {
				err = t.h.Send(msgs...)
			}
			out.Err = err != nil
			if err == nil {
				for _, m := range msgs {
					out.Offsets = append(out.Offsets, m.Offset)
				}
				w.mu.Lock()
				for i, tg := range o.tags {
					w.sent[tg] = true
					if t.child == nil {
						w.entries = append(w.entries, entryInfo{tag: tg, id: msgs[i].ID, off: msgs[i].Offset})
					}
				}
				w.mu.Unlock()
			}
			if err == nil && len(t.msgCall) == len(msgs) && len(t.msgRet) == len(msgs) {
				// one history operation per appended message
				for i := range msgs {
					w.mu.Lock()
					w.hist = append(w.hist, histOp{client: t.id, input: logInput{Send: o.tags[i : i+1]}, output: logOutput{Offsets: out.Offsets[i : i+1]}, call: t.msgCall[i], ret: t.msgRet[i]})
					w.mu.Unlock()
				}
				w.tick()
			} else {
				w.record(t.id, logInput{Send: o.tags}, out, call)
			}
		case opIgnore:
			w.mu.Lock()
			known := append([]entryInfo(nil), w.entries...)
			w.mu.Unlock()
			if o.ignFromFile {
				// the operator looks at the log itself: the newest lines may have been laid down
				// by any writer (another handle, another process), not only by handles of this world
				if raw, err := os.ReadFile(w.data); err == nil {
					var fe []entryInfo
					for pos, ln := range bytes.Split(bytes.TrimRight(raw, "\n"), []byte("\n")) {
						var m storage.Message
						if len(ln) == 0 || json.Unmarshal(ln, &m) != nil {
							continue
						}
						// the by-offset list names the offset a line carries; the expectation is kept by position
						_ = pos
						fe = append(fe, entryInfo{id: m.ID, off: m.Offset})
					}
					if len(fe) > 0 {
						known = fe
					}
				}
			}
			var keys []string
			for _, b := range o.ignBack {
				if len(known) == 0 {
					break
				}
				e := known[len(known)-1-b%len(known)]
				if o.ignByOff {
					keys = append(keys, strconv.FormatUint(e.off, 10))
				} else {
					keys = append(keys, e.id)
				}
				t.ign[e.off] = true
			}
			if len(keys) > 0 {
				if err := t.h.IgnoreMessages(keys, o.ignByOff); err != nil {
					w.fail("ignore-list-refused", err.Error())
				}
				w.stats.Fault("ignore-list-given-to-a-working-handle")
			}
		case opRead:
			from := o.from
			if o.poll {
				// the way a node's poller reads: one handle for its whole life, each
				// read starts where the previous one ended
				from = t.seen
			}
			ignAtStart := map[uint64]bool{}
			for k := range t.ign {
				ignAtStart[k] = true
			}
			ms, err := t.h.GetMessages(from)
			out := logOutput{Err: err != nil}
			for _, m := range ms {
				out.Tags = append(out.Tags, tagOf(m))
			}
			if !t.hasIgnore {
				w.record(t.id, logInput{From: from}, out, call)
			}
			if err != nil {
				// the log is intact (every entry was written whole): a reader has no reason to fail
				w.fail("read-returned-an-error", fmt.Sprintf("reader task %d: GetMessages(%d): %v", t.id, from, err))
			}
			if err == nil {
				// entries put on the ignore list while this read was under way (by the task
				// that shares the handle) may or may not be left out
				opt := map[uint64]bool{}
				for k := range t.ign {
					if !ignAtStart[k] {
						opt[k] = true
					}
				}
				w.checkRead(ms, from, fmt.Sprintf("reader task %d", t.id), t.ign, opt)
				if o.poll {
					if len(ms) > 0 {
						t.seen = ms[len(ms)-1].Offset + 1 // as Poll does: saved offset = offset of the last message + 1
					}
					w.stats.Probe("poll-style-read")
				}
			}
		}
	}
}

func (w *world) tick() int64 {
	w.mu.Lock()
	defer w.mu.Unlock()
	w.seq++
	return w.seq
}

func (w *world) record(client int, in logInput, out logOutput, call int64) {
	ret := w.tick()
	w.mu.Lock()
	w.hist = append(w.hist, histOp{client: client, input: in, output: out, call: call, ret: ret})
	w.mu.Unlock()
}

// checkRead: what a read returns is a gap-free, repeat-free run of positions.
func (w *world) checkRead(ms []storage.Message, from uint64, who string, ign map[uint64]bool, opt map[uint64]bool) {
	next := from
	for i, m := range ms {
		for ign[next] && !(opt[next] && m.Offset == next) {
			next++ // entries the handle was told to ignore are left out, nothing else
		}
		if m.Offset != next {
			sig := "offset-not-position"
			if len(ign) > 0 {
				sig = "read-with-ignore-list-wrong"
			}
			w.fail(sig, fmt.Sprintf("%s: GetMessages(%d) returned at index %d an entry carrying offset %d, expected %d (tag %s, %d entries ignored)", who, from, i, m.Offset, next, tagOf(m), len(ign)))
			return
		}
		next++
		if d := contentDiff(m); d != "" {
			w.fail("entry-read-back-differs-from-what-was-sent", fmt.Sprintf("%s: GetMessages(%d) returned at index %d the entry with tag %s carrying %s", who, from, i, tagOf(m), d))
			return
		}
	}
}

// fullRead reads the whole log through a fresh handle and checks the
// append-only invariants against everything known to have been sent.
func (w *world) fullRead(final bool) {
	h, err := file_storage.NewFileStorage(w.data, w.lock)
	if err != nil {
		w.fail("fresh-handle-open-failed", err.Error())
		return
	}
	defer h.Close()
	ms, err := h.GetMessages(0)
	if err != nil {
		w.fail("log-unreadable", fmt.Sprintf("GetMessages(0) from a fresh handle fails: %v", err))
		return
	}
	seen := map[string]int{}
	var tags []string
	for i, m := range ms {
		tg := tagOf(m)
		tags = append(tags, tg)
		if d := contentDiff(m); d != "" {
			w.fail("entry-read-back-differs-from-what-was-sent", fmt.Sprintf("a fresh handle reads at position %d the entry with tag %s carrying %s", i, tg, d))
			return
		}
		if m.Offset != uint64(i) {
			w.fail("offset-not-position", fmt.Sprintf("entry at position %d carries offset %d (tag %s, %d bytes)", i, m.Offset, tg, len(m.Data)))
			return
		}
		seen[tg]++
		if seen[tg] > 1 {
			w.fail("message-appears-twice", fmt.Sprintf("tag %s appears %d times", tg, seen[tg]))
			return
		}
	}
	// previously written entries never change: earlier full reads are prefixes
	if len(tags) < len(w.lastFull) {
		w.fail("log-shrank", fmt.Sprintf("an earlier read saw %d entries, now %d", len(w.lastFull), len(tags)))
		return
	}
	for i := range w.lastFull {
		if w.lastFull[i] != tags[i] {
			w.fail("entry-changed", fmt.Sprintf("position %d held %s, now %s", i, w.lastFull[i], tags[i]))
			return
		}
	}
	w.lastFull = tags
	w.mu.Lock()
	defer w.mu.Unlock()
	for tg := range w.sent {
		if seen[tg] != 1 {
			w.fail("sent-message-missing", fmt.Sprintf("message %s was sent successfully but appears %d times in the log", tg, seen[tg]))
			return
		}
	}
}

// ---- sequential log model for porcupine -------------------------------------

func logModel() porcupine.Model {
	return porcupine.Model{
		Init: func() interface{} { return "" },
		Step: func(st, in, out interface{}) (bool, interface{}) {
			s := st.(string)
			var cur []string
			if s != "" {
				cur = strings.Split(s, ",")
			}
			i := in.(logInput)
			o := out.(logOutput)
			if i.Send != nil {
				if o.Err {
					return true, s // a failed send is not judged here
				}
				if len(o.Offsets) != len(i.Send) {
					return false, s
				}
				for k := range i.Send {
					if o.Offsets[k] != uint64(len(cur)) {
						return false, s
					}
					cur = append(cur, i.Send[k])
				}
				return true, strings.Join(cur, ",")
			}
			if o.Err {
				return true, s
			}
			var want []string
			if int(i.From) < len(cur) {
				want = cur[i.From:]
			}
			if len(want) != len(o.Tags) {
				return false, s
			}
			for k := range want {
				if want[k] != o.Tags[k] {
					return false, s
				}
			}
			return true, s
		},
		Equal: func(a, b interface{}) bool { return a.(string) == b.(string) },
		DescribeOperation: func(in, out interface{}) string {
			i := in.(logInput)
			o := out.(logOutput)
			if i.Send != nil {
				return fmt.Sprintf("send(%v)->%v", i.Send, o.Offsets)
			}
			return fmt.Sprintf("read(%d)->%v", i.From, o.Tags)
		},
	}
}

func sizeClass(tp *sim.Tape) int {
	switch tp.Choose(12, "sizeClass") {
	case 0:
		return 0
	case 1, 2, 3, 4:
		return 1 + tp.Choose(200, "size")
	case 5, 6:
		return 40*1024 + tp.Choose(30*1024, "size") // around the 64 KiB scanner default
	case 7:
		return 64*1024 - 300 + tp.Choose(600, "size")
	case 8:
		return 700*1024 + tp.Choose(60*1024, "size") // just under the reader's 1 MiB line limit (base64 inflates 4/3)
	default:
		return 1 + tp.Choose(5000, "size")
	}
}

// RunOne is one simulated run of the board engine.
func RunOne(t *testing.T, scenario, tier string, tape *sim.Tape, keepAll bool) (res sim.RunResult) {
	res.Seed = tape.Seed
	w := &world{tp: tape, log: sim.NewEventLog(), stats: sim.NewStats(), byGid: map[int64]*task{}, event: make(chan *task, 256), sent: map[string]bool{}}
	w.log.All = keepAll
	defer func() {
		file_storage.SimYield = nil
		if w.dir != "" {
			os.RemoveAll(w.dir)
		}
	}()
	func() {
		defer func() {
			if r := recover(); r != nil {
				res.Inconclusive = fmt.Sprintf("harness panic: %v\n%s", r, debug.Stack())
			}
		}()
		res.NonTrivial, res.Sample = w.run(tier)
	}()
	res.Violation = w.viol
	res.Stats = w.stats
	res.Fingerprint = w.log.Fingerprint()
	res.DistinctKey = res.Fingerprint
	res.Steps = int(w.seq)
	res.Trace = w.log.Tail()
	if keepAll {
		res.Trace = w.log.Lines()
	}
	res.Tape = append([]uint32(nil), tape.Out...)
	res.TapeLen = len(tape.Out)
	return res
}

func scratch() string {
	if st, err := os.Stat("/dev/shm"); err == nil && st.IsDir() {
		return "/dev/shm"
	}
	return os.TempDir()
}

func (w *world) run(tier string) (bool, interface{}) {
	tp := w.tp
	dir, err := os.MkdirTemp(scratch(), "dc4bc-board-")
	if err != nil {
		panic(err)
	}
	w.dir = dir
	w.data = filepath.Join(dir, "board.log")
	w.lock = filepath.Join(dir, "board.lock")
	file_storage.SimYield = func(fs *file_storage.FileStorage, point string) { w.yield(point) }

	maxW := 4
	maxOps := 24
	if tier == "thorough" {
		maxW, maxOps = 8, 40
	}
	nw := 1 + tp.Choose(maxW, "writers")
	nops := 4 + tp.Choose(maxOps-3, "ops")
	big := tp.Bool(1, 2, "bigMessages")
	nChildren := 0
	if tp.Bool(1, 3, "childWriters") {
		nChildren = 1 + tp.Choose(2, "children")
	}
	tagN := 0
	// a long log of middle-sized lines written before the tasks start (more than the
	// readers' 64 KiB initial buffer holds), and pre-emption inside the scan loops
	if !big && tp.Bool(1, 4, "longLog") {
		ph, err := file_storage.NewFileStorage(w.data, w.lock)
		if err != nil {
			panic(err)
		}
		cnt := 90 + tp.Choose(60, "prefillCount")
		for i := 0; i < cnt; i++ {
			tg := fmt.Sprintf("t%d", tagN)
			tagN++
			m := withFields(storage.Message{Event: "prefill", Data: payload(tg, 600+tp.Choose(400, "prefillSize"))}, tg)
			call := w.tick()
			if err := ph.Send(m); err != nil {
				panic(err)
			}
			w.sent[tg] = true
			// part of the history: a completed append by a client of its own
			w.hist = append(w.hist, histOp{client: 1000, input: logInput{Send: []string{tg}}, output: logOutput{Offsets: []uint64{uint64(i)}}, call: call, ret: w.tick()})
		}
		ph.Close()
		w.prefilled = cnt
		w.lineEvery = []int{1, 3, 11, 37}[tp.Choose(4, "lineEvery")]
		w.stats.Fault("long-log")
	}
	// another implementation of the board writes to the same file (under the same lock, with
	// correct offsets) and leaves empty fields out of its lines; before the tasks start, a few
	// of its lines are laid down between ordinary ones. What is read back for such a line has
	// empty fields, whatever the line in front of it carries
	if tp.Bool(1, 3, "foreignWriter") {
		ph, err := file_storage.NewFileStorage(w.data, w.lock)
		if err != nil {
			panic(err)
		}
		cnt := 2 + tp.Choose(5, "foreignCount")
		for i := 0; i < cnt; i++ {
			off := uint64(w.prefilled)
			call := w.tick()
			var tg string
			if i%2 == 0 {
				tg = fmt.Sprintf("t%d", tagN)
				tagN++
				m := withFields(storage.Message{Event: "neighbour", Data: payload(tg, 20+tp.Choose(80, "neighbourSize"))}, tg)
				if err := ph.Send(m); err != nil {
					panic(err)
				}
			} else {
				tg = fmt.Sprintf("f%d", i)
				line := fmt.Sprintf(`{"id":"foreign-%d","offset":%d,"event":"foreign","data":%q}`+"\n", i, off, base64.StdEncoding.EncodeToString(payload(tg, 30)))
				lk := fslock.New(w.lock)
				if err := lk.Lock(); err != nil {
					panic(err)
				}
				f, err := os.OpenFile(w.data, os.O_APPEND|os.O_WRONLY, 0644)
				if err != nil {
					panic(err)
				}
				if _, err := f.WriteString(line); err != nil {
					panic(err)
				}
				f.Close()
				_ = lk.Unlock()
			}
			w.sent[tg] = true
			w.hist = append(w.hist, histOp{client: 1001, input: logInput{Send: []string{tg}}, output: logOutput{Offsets: []uint64{off}}, call: call, ret: w.tick()})
			w.prefilled++
		}
		ph.Close()
		w.stats.Fault("sparse-lines-by-a-foreign-writer")
	}
	for i := 0; i < nw; i++ {
		h, err := file_storage.NewFileStorage(w.data, w.lock)
		if err != nil {
			panic(err)
		}
		defer closeSoon(h)
		tk := &task{id: i, h: h, grant: make(chan struct{}), ign: map[uint64]bool{}}
		if i > 0 && nChildren > 0 {
			if c, err := startChild(w.data, w.lock); err == nil {
				tk.child = c
				defer c.stop()
				nChildren--
			} else {
				w.stats.Probe("child-start-failed")
			}
		}
		w.tasks = append(w.tasks, tk)
	}
	// node style: a node reads (its poller) through the very handle it sends through
	// (its API goroutine); the writers still append through separate handles
	nodeStyle := tp.Bool(1, 2, "nodeStyle")
	if nodeStyle {
		k := 1 + tp.Choose(2, "sharedHandles")
		for i := 0; i < k && i < nw; i++ {
			base := w.tasks[i]
			if base.child != nil {
				continue
			}
			base.shared = true
			rt := &task{id: len(w.tasks), h: base.h, grant: make(chan struct{}), shared: true, ign: base.ign, mate: base}
			base.mate = rt
			for j := 0; j < 2+tp.Choose(5, "pollerReads"); j++ {
				rt.ops = append(rt.ops, op{kind: opRead, poll: true})
			}
			w.tasks = append(w.tasks, rt)
			w.stats.Fault("node-style-shared-handle")
		}
	}
	for k := 0; k < nops; k++ {
		t := w.tasks[tp.Choose(nw, "whichTask")]
		if t.child == nil && tp.Choose(9, "ignore?") == 0 {
			// the handle is told to ignore some entries (mostly the newest ones) and keeps working
			o := op{kind: opIgnore, ignByOff: tp.Bool(1, 2, "ignoreByOffset"), ignFromFile: tp.Bool(1, 2, "ignoreNewestLinesOfTheFile")}
			for j := 0; j < 1+tp.Choose(2, "ignoreCount"); j++ {
				o.ignBack = append(o.ignBack, []int{0, 0, 1, 2, 5}[tp.Choose(5, "ignoreBack")])
			}
			t.ops = append(t.ops, o)
			t.hasIgnore = true
			if t.mate != nil {
				t.mate.hasIgnore = true
			}
			if tp.Bool(1, 2, "recoveryPath") {
				// the way an operator recovers a node: tell it to ignore the newest entries, let it
				// read the log again from the start, and it goes on sending through the same handle
				t.ops = append(t.ops, op{kind: opRead, from: uint64(tp.Choose(2, "rereadFrom")), poll: false})
				so := op{kind: opSend}
				for j := 0; j < 1+tp.Choose(2, "batchAfterReread"); j++ {
					sz := 1 + tp.Choose(100, "size")
					if big {
						sz = sizeClass(tp)
					}
					so.sizes = append(so.sizes, sz)
					so.tags = append(so.tags, fmt.Sprintf("t%d", tagN))
					tagN++
				}
				t.ops = append(t.ops, so)
				w.stats.Fault("ignore-reread-send-on-one-handle")
			}
			continue
		}
		if tp.Choose(4, "readOrSend") == 0 {
			t.ops = append(t.ops, op{kind: opRead, from: uint64(tp.Choose(6, "from")), poll: tp.Choose(2, "pollStyle") == 0})
			continue
		}
		o := op{kind: opSend}
		for j := 0; j < 1+tp.Choose(3, "batch"); j++ {
			sz := 1 + tp.Choose(100, "size")
			if big {
				sz = sizeClass(tp)
			}
			o.sizes = append(o.sizes, sz)
			o.tags = append(o.tags, fmt.Sprintf("t%d", tagN))
			tagN++
		}
		t.ops = append(t.ops, o)
	}
	for _, t := range w.tasks {
		go w.runTask(t)
		<-w.event // parked at task.start
	}
	probe := fslock.New(w.lock)
	preempt := 0
	var last *task
	steps := 0
	for {
		var runnable []*task
		blockedOnLock := 0
		for _, t := range w.tasks {
			if t.done || t.lockWait || t.parked == "" {
				continue
			}
			if t.parked == "send.beforeLock" || (t.child != nil && t.parked == "op.start" && t.nextIsSend()) {
				// a task about to take the lock is only runnable when the lock
				// is free, so a parked lock holder cannot deadlock the simulator
				if err := probe.TryLock(); err != nil {
					blockedOnLock++
					continue
				}
				_ = probe.Unlock()
			}
			runnable = append(runnable, t)
		}
		if len(runnable) == 0 {
			if blockedOnLock > 0 {
				w.fail("lock-never-released", "writers wait for the lock but no task holds it any more")
			}
			break
		}
		t := runnable[tp.Choose(len(runnable), "who")]
		if last != nil && last != t && !last.done && strings.HasPrefix(last.parked, "send.after") && last.parked != "send.afterUnlock" {
			preempt++
			w.stats.Fault("preempt-inside-critical-section")
		}
		last = t
		w.log.Add("g w%d %s", t.id, t.parked)
		steps++
		w.tick()
		t.grant <- struct{}{}
		ev, blocked := w.await(t)
		if blocked {
			// the task waits for a lock of its handle that its parked sibling holds: it
			// is out of the running until the sibling has moved on
			t.lockWait = true
			w.log.Add("w%d waits for its handle", t.id)
			w.stats.Probe("task-waits-for-its-shared-handle")
			continue
		}
		w.settleLockWaiters()
		if ev == nil {
			// a writer that blocks on something the scheduler's lock-file probe cannot see (an
			// additional in-process lock held by a parked writer, say) is a limit of this
			// harness, not a verdict on the property: the run is abandoned as inconclusive
			panic(fmt.Sprintf("task %d did not reach its next yield within 5 s after being granted at %s", t.id, t.parked))
		}
		if ev.done && ev.panicV != nil {
			w.fail("panic", fmt.Sprintf("task %d: %v", ev.id, ev.panicV))
			break
		}
		if w.viol != nil {
			break
		}
		// invariant after every completed operation
		if ev.parked == "op.start" || ev.done {
			w.fullRead(false)
			if w.viol != nil {
				break
			}
		}
	}
	if w.viol == nil {
		w.fullRead(true)
	}
	if w.viol == nil {
		w.checkIgnoreAndOffsets()
	}
	lin := "skipped"
	if w.viol == nil && len(w.hist) <= 40 {
		ops := make([]porcupine.Operation, 0, len(w.hist))
		for _, h := range w.hist {
			ops = append(ops, porcupine.Operation{ClientId: h.client, Input: h.input, Call: h.call, Output: h.output, Return: h.ret})
		}
		switch porcupine.CheckOperationsTimeout(logModel(), ops, 30*time.Second) {
		case porcupine.Illegal:
			var d []string
			sort.Slice(w.hist, func(i, j int) bool { return w.hist[i].call < w.hist[j].call })
			for _, h := range w.hist {
				d = append(d, fmt.Sprintf("[%d,%d] w%d %s", h.call, h.ret, h.client, logModel().DescribeOperation(h.input, h.output)))
			}
			w.fail("history-not-linearizable", strings.Join(d, "; "))
			lin = "illegal"
		case porcupine.Unknown:
			lin = "unknown"
			w.stats.Probe("porcupine-timeout")
		default:
			lin = "ok"
			w.stats.Probe("porcupine-ok")
		}
	}
	maxSize := 0
	for _, t := range w.tasks {
		for _, o := range t.ops {
			for _, s := range o.sizes {
				if s > maxSize {
					maxSize = s
				}
			}
		}
	}
	if maxSize > 64*1024 {
		w.stats.Probe("line-longer-than-64KiB")
	}
	return len(w.hist) >= 2, map[string]interface{}{"writers": nw, "ops": len(w.hist), "entries": len(w.lastFull), "max_message_bytes": maxSize,
		"preemptions_inside_critical_section": preempt, "scheduler_steps": steps, "linearizability": lin}
}

// closeSoon closes a task's handle at the end of a run without waiting for it: a run
// that ends on a verdict leaves tasks parked inside Send / GetMessages, and a Close that
// waits for them (an implementation may well take the handle's lock in Close) must not
// keep the verdict from being reported.
func closeSoon(h storage.Storage) {
	done := make(chan struct{})
	go func() {
		defer func() { _ = recover() }()
		_ = h.Close()
		close(done)
	}()
	select {
	case <-done:
	case <-time.After(200 * time.Millisecond):
	}
}

// goroutineBlockedOnLock tells whether the goroutine waits for a sync primitive.
func goroutineBlockedOnLock(gid int64) bool {
	buf := make([]byte, 1<<20)
	n := runtime.Stack(buf, true)
	marker := []byte(fmt.Sprintf("goroutine %d [", gid))
	i := bytes.Index(buf[:n], marker)
	if i < 0 {
		return false
	}
	rest := buf[i+len(marker) : n]
	j := bytes.IndexByte(rest, ']')
	if j < 0 {
		return false
	}
	st := string(rest[:j])
	return strings.Contains(st, "Mutex") || strings.Contains(st, "semacquire") || strings.Contains(st, "sync.Cond")
}

// await waits for the granted task to reach its next yield or its end. A task that
// shares its handle may instead come to rest on an in-process lock of the handle
// (three consecutive observations); that is reported as blocked. Events of tasks
// that were waiting for such a lock and got it are taken note of on the way.
func (w *world) await(t *task) (*task, bool) {
	deadline := time.Now().Add(5 * time.Second)
	obs := 0
	for i := 1; ; i++ {
		select {
		case ev := <-w.event:
			if ev == t {
				return ev, false
			}
			ev.lockWait = false
			continue
		default:
		}
		if i%400 == 0 {
			if t.shared && goroutineBlockedOnLock(t.gid) {
				obs++
				if obs >= 3 {
					return nil, true
				}
			} else {
				obs = 0
			}
			if time.Now().After(deadline) {
				return nil, false
			}
			time.Sleep(50 * time.Microsecond)
		}
		runtime.Gosched()
	}
}

// settleLockWaiters: after every step each task that waits for its handle either
// has got it and reached its next yield, or is seen waiting again; only then is
// the set of runnable tasks computed (so that it does not depend on timing).
func (w *world) settleLockWaiters() {
	for _, t := range w.tasks {
		if !t.lockWait {
			continue
		}
		obs := 0
		deadline := time.Now().Add(5 * time.Second)
		for i := 1; t.lockWait; i++ {
			select {
			case ev := <-w.event:
				ev.lockWait = false
				continue
			default:
			}
			if i%400 == 0 {
				if goroutineBlockedOnLock(t.gid) {
					obs++
					if obs >= 3 {
						break
					}
				} else {
					obs = 0
				}
				if time.Now().After(deadline) {
					panic(fmt.Sprintf("task %d neither got its handle nor waits for it", t.id))
				}
				time.Sleep(50 * time.Microsecond)
			}
			runtime.Gosched()
			if obs >= 3 {
				break
			}
		}
	}
}

func waitEvent(ch chan *task) *task {
	select {
	case t := <-ch:
		return t
	case <-time.After(5 * time.Second):
		return nil
	}
}

// checkIgnoreAndOffsets: reads from every offset with ignore lists by id and
// by offset equal the reference slice minus the ignored entries.
func (w *world) checkIgnoreAndOffsets() {
	tp := w.tp
	ref, err := file_storage.NewFileStorage(w.data, w.lock)
	if err != nil {
		return
	}
	defer ref.Close()
	all, err := ref.GetMessages(0)
	if err != nil || len(all) == 0 {
		return
	}
	for trial := 0; trial < 3; trial++ {
		h, _ := file_storage.NewFileStorage(w.data, w.lock)
		ign := map[int]bool{}
		var ids, offs []string
		for i := range all {
			switch tp.Choose(6, "ignore?") {
			case 0:
				ids = append(ids, all[i].ID)
				ign[i] = true
			case 1:
				offs = append(offs, strconv.FormatUint(all[i].Offset, 10))
				ign[i] = true
			}
		}
		_ = h.IgnoreMessages(ids, false)
		_ = h.IgnoreMessages(offs, true)
		k := tp.Choose(len(all)+2, "readFrom")
		got, err := h.GetMessages(uint64(k))
		h.Close()
		if err != nil {
			w.fail("read-with-ignore-failed", err.Error())
			return
		}
		var want []string
		for i := k; i < len(all); i++ {
			if !ign[i] {
				want = append(want, tagOf(all[i]))
			}
		}
		var have []string
		for _, m := range got {
			have = append(have, tagOf(m))
		}
		if strings.Join(want, ",") != strings.Join(have, ",") {
			w.fail("read-from-offset-wrong", fmt.Sprintf("GetMessages(%d) with %d ignored ids and %d ignored offsets returned %v, expected %v", k, len(ids), len(offs), have, want))
			return
		}
		w.stats.Probe("ignore-reads-checked")
	}
}
