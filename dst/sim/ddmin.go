package sim

// Minimise shrinks a failing tape while test(candidate) keeps returning true
// (same violation signature). First ddmin-style chunk deletion, then truncation
// of the tail, then lowering of individual values towards 0 ("earlier task /
// no fault / smaller input"). Bounded by budget candidate runs.
func Minimise(tape []uint32, budget int, test func([]uint32) bool) ([]uint32, int) {
	runs := 0
	try := func(c []uint32) bool {
		if runs >= budget {
			return false
		}
		runs++
		return test(c)
	}
	cur := append([]uint32(nil), tape...)

	// 1. truncate the tail by bisection (an exhausted tape answers 0
	// everywhere). Invariant: cur[:hi] is known to fail.
	lo, hi := 0, len(cur)
	for lo < hi {
		mid := (lo + hi) / 2
		if try(cur[:mid]) {
			hi = mid
		} else {
			lo = mid + 1
		}
	}
	cur = cur[:hi]

	// 2. chunk deletion
	n := 2
	for len(cur) >= 2 && runs < budget {
		chunk := (len(cur) + n - 1) / n
		reduced := false
		for start := 0; start < len(cur); start += chunk {
			end := start + chunk
			if end > len(cur) {
				end = len(cur)
			}
			cand := append(append([]uint32(nil), cur[:start]...), cur[end:]...)
			if try(cand) {
				cur = cand
				if n > 2 {
					n--
				}
				reduced = true
				break
			}
			if runs >= budget {
				break
			}
		}
		if !reduced {
			if chunk <= 1 {
				break
			}
			n *= 2
			if n > len(cur) {
				n = len(cur)
			}
		}
	}

	// 3. lower values
	for i := 0; i < len(cur) && runs < budget; i++ {
		if cur[i] == 0 {
			continue
		}
		cand := append([]uint32(nil), cur...)
		cand[i] = 0
		if try(cand) {
			cur = cand
			continue
		}
		if cur[i] > 1 {
			cand[i] = cur[i] / 2
			if try(cand) {
				cur = cand
			}
		}
	}
	// drop trailing zeros (they are implied)
	for len(cur) > 0 && cur[len(cur)-1] == 0 {
		cur = cur[:len(cur)-1]
	}
	return cur, runs
}
