// Package sim holds the engine-independent core of the deterministic
// simulator: the choice tape (the only source of nondeterminism), the event
// log, violations, statistics, delta-debugging minimisation and replay files.
package sim

import (
	"encoding/json"
	"fmt"
	"os"
)

// SplitMix64 is the PRNG every choice is derived from.
type SplitMix64 struct{ s uint64 }

func NewRNG(seed uint64) *SplitMix64 { return &SplitMix64{s: seed} }

func (r *SplitMix64) Next() uint64 {
	r.s += 0x9e3779b97f4a7c15
	z := r.s
	z = (z ^ (z >> 30)) * 0xbf58476d1ce4e5b9
	z = (z ^ (z >> 27)) * 0x94d049bb133111eb
	return z ^ (z >> 31)
}

// Mix derives a run seed from the batch seed, the worker index and the run index.
func Mix(a, b, c uint64) uint64 {
	r := NewRNG(a ^ 0x6a09e667f3bcc909)
	x := r.Next() ^ (b * 0x9e3779b97f4a7c15)
	r2 := NewRNG(x)
	y := r2.Next() ^ (c * 0xc2b2ae3d27d4eb4f)
	return NewRNG(y).Next()
}

// Tape is the single source of every decision of a run. In generation mode the
// values come from the PRNG and are recorded; in replay mode the recorded values
// are consumed (value mod k) and an exhausted tape answers 0, which by
// convention is always "first enabled task / no fault / smallest input".
type Tape struct {
	Seed    uint64
	rng     *SplitMix64
	replay  bool
	in      []uint32
	pos     int
	Out     []uint32 // values actually used (already reduced mod k)
	Labels  []string // parallel to Out when KeepLabels
	KeepLab bool
	// Params are run parameters that are not drawn from the tape (e.g. the
	// crash position of a fault-enumeration sub-run); stored in replay files.
	Params map[string]string
}

func NewTape(seed uint64) *Tape { return &Tape{Seed: seed, rng: NewRNG(seed)} }

func ReplayTape(seed uint64, vals []uint32) *Tape {
	return &Tape{Seed: seed, replay: true, in: vals}
}

// Fork returns a fresh tape at position 0 with the same seed, mode and input
// (the same schedule again, e.g. with another crash position).
func (t *Tape) Fork() *Tape {
	if t.replay {
		return &Tape{Seed: t.Seed, replay: true, in: t.in}
	}
	return NewTape(t.Seed)
}

// Choose returns a value in [0,k). k<=1 consumes nothing.
func (t *Tape) Choose(k int, label string) int {
	if k <= 1 {
		return 0
	}
	var v uint32
	if t.replay {
		if t.pos < len(t.in) {
			v = t.in[t.pos] % uint32(k)
		}
		t.pos++
	} else {
		v = uint32(t.rng.Next() % uint64(k))
	}
	t.Out = append(t.Out, v)
	if t.KeepLab {
		t.Labels = append(t.Labels, label)
	}
	return int(v)
}

// Bool is true with probability num/den (in generation mode); 0 means false.
func (t *Tape) Bool(num, den int, label string) bool {
	if num <= 0 {
		return false
	}
	return t.Choose(den, label) >= den-num
}

// Bytes draws n bytes (each a choice in [0,256)).
func (t *Tape) Bytes(n int, label string) []byte {
	b := make([]byte, n)
	for i := range b {
		b[i] = byte(t.Choose(256, label))
	}
	return b
}

// Sub derives an independent deterministic byte stream (for crypto/rand and
// uuid) from the tape seed without consuming tape positions, so that deleting
// tape entries during minimisation does not change generated key material.
func (t *Tape) Sub(domain uint64) *SplitMix64 { return NewRNG(Mix(t.Seed, domain, 0x5eed)) }

// ReplayFile is what is written for every violation.
type ReplayFile struct {
	Property  string            `json:"property"`
	Engine    string            `json:"engine"`
	Scenario  string            `json:"scenario"`
	Tier      string            `json:"tier"`
	Seed      uint64            `json:"seed"`
	Tape      []uint32          `json:"tape"`
	Signature string            `json:"signature"`
	Detail    string            `json:"detail"`
	Params    map[string]string `json:"params,omitempty"`
	OrigTape  int               `json:"orig_tape_len"`
	MinRuns   int               `json:"minimisation_runs"`
	Trace     []string          `json:"trace_tail,omitempty"`
	Faults    map[string]int    `json:"faults_fired,omitempty"`
}

func (r *ReplayFile) Write(path string) error {
	b, err := json.MarshalIndent(r, "", " ")
	if err != nil {
		return err
	}
	return os.WriteFile(path, b, 0o644)
}

func ReadReplay(path string) (*ReplayFile, error) {
	b, err := os.ReadFile(path)
	if err != nil {
		return nil, err
	}
	var r ReplayFile
	if err := json.Unmarshal(b, &r); err != nil {
		return nil, fmt.Errorf("replay file %s: %w", path, err)
	}
	return &r, nil
}
