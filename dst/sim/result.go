package sim

import (
	"crypto/sha256"
	"encoding/binary"
	"fmt"
	"os"
	"sort"
	"strconv"
)

// Violation is a failed oracle. Signature is a short canonical string that
// names what failed independent of ids, seeds and times; known findings are
// matched on it and minimisation preserves it.
type Violation struct {
	Property  string `json:"property"`
	Signature string `json:"signature"`
	Detail    string `json:"detail"`
}

func (v *Violation) Error() string { return v.Property + " " + v.Signature + ": " + v.Detail }

// EventLog is the canonical record of a run: one line per granted gate /
// scheduler action. Nothing in it depends on wall-clock time or map order.
type EventLog struct {
	h     [32]byte
	n     int
	tail  []string
	Keep  int  // number of tail lines kept
	All   bool // keep every line (determinism self-test)
	lines []string
}

// DST_TRACE_STDERR: every line also goes to stderr (looking at a run that hangs)
var traceStderr = os.Getenv("DST_TRACE_STDERR") != ""

func NewEventLog() *EventLog {
	l := &EventLog{Keep: 60}
	// DST_KEEP: longer tail for looking at a replay (affects what is kept, not what runs)
	if k, err := strconv.Atoi(os.Getenv("DST_KEEP")); err == nil && k > 0 {
		l.Keep = k
	}
	return l
}

func (l *EventLog) Add(format string, a ...interface{}) {
	s := fmt.Sprintf(format, a...)
	l.n++
	hh := sha256.New()
	hh.Write(l.h[:])
	hh.Write([]byte(s))
	copy(l.h[:], hh.Sum(nil))
	if l.All {
		l.lines = append(l.lines, s)
	}
	if traceStderr {
		fmt.Fprintln(os.Stderr, "T", s)
	}
	l.tail = append(l.tail, s)
	if len(l.tail) > l.Keep {
		l.tail = l.tail[len(l.tail)-l.Keep:]
	}
}

func (l *EventLog) Len() int               { return l.n }
func (l *EventLog) Tail() []string         { return append([]string(nil), l.tail...) }
func (l *EventLog) Lines() []string        { return l.lines }
func (l *EventLog) Fingerprint() uint64    { return binary.LittleEndian.Uint64(l.h[:8]) }
func (l *EventLog) FingerprintHex() string { return fmt.Sprintf("%016x", l.Fingerprint()) }

// Stats counts what actually fired in a run (not what was configured).
type Stats struct {
	Faults map[string]int `json:"faults"`
	Probes map[string]int `json:"probes"`
}

func NewStats() *Stats                  { return &Stats{Faults: map[string]int{}, Probes: map[string]int{}} }
func (s *Stats) Fault(k string)         { s.Faults[k]++ }
func (s *Stats) Probe(k string)         { s.Probes[k]++ }
func (s *Stats) ProbeN(k string, n int) { s.Probes[k] += n }
func (s *Stats) AddTo(dst *Stats) {
	for k, v := range s.Faults {
		dst.Faults[k] += v
	}
	for k, v := range s.Probes {
		dst.Probes[k] += v
	}
}

// RunResult is what one simulated run reports.
type RunResult struct {
	Seed         uint64
	Violation    *Violation
	Stats        *Stats
	Fingerprint  uint64 // canonical event-log fingerprint
	NonTrivial   bool   // the run reached the property's trigger
	DistinctKey  uint64 // what is counted as "distinct" (defaults to Fingerprint)
	Steps        int
	Gates        int
	FakeSeconds  float64
	Sample       interface{}
	TapeLen      int
	Tape         []uint32
	Trace        []string
	Abstract     []string // abstract states reached (coverage measure)
	Params       map[string]string
	Inconclusive string // non-empty: run could not be judged (never a violation)
}

// Aggregate is what a worker writes for the driver.
type Aggregate struct {
	Property     string                 `json:"property"`
	Engine       string                 `json:"engine"`
	Worker       int                    `json:"worker"`
	Runs         int                    `json:"runs"`
	NonTrivial   int                    `json:"nontrivial"`
	Distinct     []uint64               `json:"distinct"`
	Steps        int64                  `json:"steps"`
	Gates        int64                  `json:"gates"`
	FakeSeconds  float64                `json:"fake_seconds"`
	Stats        *Stats                 `json:"stats"`
	Abstract     map[string]int         `json:"abstract"`
	Samples      []interface{}          `json:"samples"`
	Violations   []ViolationReport      `json:"violations"`
	Inconclusive map[string]int         `json:"inconclusive"`
	WallS        float64                `json:"wall_s"`
	FirstSeeds   []uint64               `json:"first_seeds"`
	Extra        map[string]interface{} `json:"extra,omitempty"`
	Fatal        string                 `json:"fatal,omitempty"`
}

type ViolationReport struct {
	Signature  string `json:"signature"`
	Detail     string `json:"detail"`
	Seed       uint64 `json:"seed"`
	Replay     string `json:"replay"`
	Count      int    `json:"count"`
	Reproduced bool   `json:"reproduced"`
}

func SortedKeys(m map[string]int) []string {
	ks := make([]string, 0, len(m))
	for k := range m {
		ks = append(ks, k)
	}
	sort.Strings(ks)
	return ks
}
