package sim

import (
	"bytes"
	"runtime"
	"strconv"
)

// GoID returns the id of the calling goroutine. Gates use it to attribute a
// store/board call to a simulator task (the poller and the API handlers of one
// node share the same service objects, so no label can be passed down).
func GoID() int64 {
	var buf [64]byte
	n := runtime.Stack(buf[:], false)
	b := buf[:n]
	b = bytes.TrimPrefix(b, []byte("goroutine "))
	i := bytes.IndexByte(b, ' ')
	if i < 0 {
		return -1
	}
	id, _ := strconv.ParseInt(string(b[:i]), 10, 64)
	return id
}
