package sim

import (
	"encoding/json"
	"fmt"
	"os"
	"path/filepath"
	"regexp"
	"runtime"
	"strconv"
	"strings"
	"sync"
	"testing"
	"time"
)

// RunFunc executes one run of a scenario from a tape.
type RunFunc func(t *testing.T, scenario, tier string, tape *Tape, keepAll bool) RunResult

func envInt(k string, def int64) int64 {
	if v := os.Getenv(k); v != "" {
		if n, err := strconv.ParseInt(v, 10, 64); err == nil {
			return n
		}
	}
	return def
}

func envU64(k string, def uint64) uint64 {
	if v := os.Getenv(k); v != "" {
		if n, err := strconv.ParseUint(v, 10, 64); err == nil {
			return n
		}
	}
	return def
}

// WorkerMain is the body of every engine's TestWorker: one OS process, many
// simulated runs, all parameters from the environment, results to a JSON file.
func WorkerMain(t *testing.T, engine string, run RunFunc) {
	scenario := os.Getenv("DST_SCENARIO")
	if scenario == "" {
		t.Skip("DST_SCENARIO not set (worker entry point, driven by /verif/check)")
	}
	prop := os.Getenv("DST_PROP")
	tier := os.Getenv("DST_TIER")
	if tier == "" {
		tier = "quick"
	}
	base := envU64("DST_SEED", 1)
	worker := int(envInt("DST_WORKER", 0))
	budget := time.Duration(envInt("DST_BUDGET_S", 30)) * time.Second
	maxRuns := int(envInt("DST_MAX_RUNS", 1<<30))
	minBudget := int(envInt("DST_MIN_BUDGET", 200))
	outPath := os.Getenv("DST_OUT")
	replayDir := os.Getenv("DST_REPLAY_DIR")

	isKnown := IsKnownFinding

	agg := &Aggregate{Property: prop, Engine: engine, Worker: worker, Stats: NewStats(),
		Abstract: map[string]int{}, Inconclusive: map[string]int{}, Extra: map[string]interface{}{}}
	sigCount := map[string]*ViolationReport{}
	write := func() {
		if outPath == "" {
			return
		}
		if len(sigCount) > 0 {
			agg.Violations = agg.Violations[:0]
			for _, vr := range sigCount {
				agg.Violations = append(agg.Violations, *vr)
			}
		}
		b, _ := json.Marshal(agg)
		_ = os.WriteFile(outPath+".tmp", b, 0o644)
		_ = os.Rename(outPath+".tmp", outPath)
	}

	// ---- replay mode -------------------------------------------------------
	if rp := os.Getenv("DST_REPLAY"); rp != "" {
		rf, err := ReadReplay(rp)
		if err != nil {
			agg.Fatal = err.Error()
			write()
			t.Fatal(err)
		}
		tries := int(envInt("DST_REPLAY_TRIES", 5))
		hits := 0
		var last RunResult
		for i := 0; i < tries; i++ {
			rtp := ReplayTape(rf.Seed, rf.Tape)
			rtp.Params = rf.Params
			last = run(t, rf.Scenario, rf.Tier, rtp, true)
			if last.Violation != nil && last.Violation.Signature == rf.Signature {
				hits++
				break
			}
		}
		agg.Runs = 1
		agg.Extra["replay_tries"] = tries
		if hits > 0 {
			agg.Violations = append(agg.Violations, ViolationReport{Signature: rf.Signature, Detail: last.Violation.Detail, Seed: rf.Seed, Replay: rp, Count: 1, Reproduced: true})
		} else if last.Violation != nil {
			agg.Extra["other_violation"] = last.Violation.Signature
		}
		agg.Extra["trace"] = last.Trace
		write()
		return
	}

	// ---- determinism dump mode ----------------------------------------------
	dumpDir := os.Getenv("DST_DUMPLOG")

	start := time.Now()
	seen := map[uint64]bool{}
	minimised := 0
	// Stall guard. A run that does not come back (a stall of the harness itself:
	// e.g. a bubble that never settles) must not take the whole batch with it: a
	// real-time goroutine outside every bubble notices it, keeps the goroutine
	// dump next to the replay files, counts the run as inconclusive and ends the
	// worker with what it has. Verdicts are never derived from such a run.
	var guardMu sync.Mutex
	var runStarted time.Time
	var runSeed uint64
	stallLimit := time.Duration(envInt("DST_STALL_LIMIT_S", 0)) * time.Second
	if stallLimit == 0 {
		stallLimit = budget * 8 / 10
		if stallLimit < 200*time.Second {
			stallLimit = 200 * time.Second
		}
		if stallLimit > 600*time.Second {
			stallLimit = 600 * time.Second
		}
	}
	go func() {
		for {
			time.Sleep(time.Second)
			guardMu.Lock()
			rs, sd := runStarted, runSeed
			if !rs.IsZero() && time.Since(rs) > stallLimit {
				buf := make([]byte, 8<<20)
				n := runtime.Stack(buf, true)
				if replayDir != "" {
					_ = os.MkdirAll(replayDir, 0o755)
					_ = os.WriteFile(filepath.Join(replayDir, fmt.Sprintf("stall-%s-%s-%d.txt", prop, scenario, sd)), buf[:n], 0o644)
				}
				agg.Runs++
				agg.Inconclusive[fmt.Sprintf("run did not come back within %s (harness stall)", stallLimit)]++
				agg.WallS = time.Since(start).Seconds()
				write()
				os.Exit(0)
			}
			guardMu.Unlock()
		}
	}()
	for ri := 0; ri < maxRuns && time.Since(start) < budget; ri++ {
		seed := Mix(base, uint64(worker), uint64(ri))
		if os.Getenv("DST_RAW_SEEDS") != "" {
			seed = base + uint64(ri)
		}
		tape := NewTape(seed)
		guardMu.Lock()
		runStarted, runSeed = time.Now(), seed
		guardMu.Unlock()
		res := run(t, scenario, tier, tape, dumpDir != "")
		guardMu.Lock()
		runStarted = time.Time{}
		guardMu.Unlock()
		agg.Runs++
		if len(agg.FirstSeeds) < 8 {
			agg.FirstSeeds = append(agg.FirstSeeds, seed)
		}
		agg.Steps += int64(res.Steps)
		agg.Gates += int64(res.Gates)
		agg.FakeSeconds += res.FakeSeconds
		if res.Stats != nil {
			res.Stats.AddTo(agg.Stats)
		}
		for _, a := range res.Abstract {
			agg.Abstract[a]++
		}
		if dumpDir != "" {
			_ = os.MkdirAll(dumpDir, 0o755)
			f := filepath.Join(dumpDir, fmt.Sprintf("%s-%d.log", scenario, seed))
			body := strings.Join(res.Trace, "\n") + "\n"
			if res.Violation != nil {
				body += "VIOL " + res.Violation.Signature + "\n"
			}
			if res.Inconclusive != "" {
				body += "INCONCLUSIVE " + firstLine(res.Inconclusive) + "\n"
			}
			_ = os.WriteFile(f, []byte(body), 0o644)
		}
		if res.Inconclusive != "" {
			k := firstLine(res.Inconclusive)
			agg.Inconclusive[k]++
			if len(agg.Inconclusive) <= 3 && agg.Inconclusive[k] == 1 {
				fmt.Fprintf(os.Stderr, "[worker %d] inconclusive run seed=%d: %s\n", worker, seed, res.Inconclusive)
			}
			continue
		}
		if res.NonTrivial {
			agg.NonTrivial++
			if !seen[res.DistinctKey] {
				seen[res.DistinctKey] = true
				agg.Distinct = append(agg.Distinct, res.DistinctKey)
			}
			if len(agg.Samples) < 3 && res.Sample != nil {
				agg.Samples = append(agg.Samples, map[string]interface{}{"seed": seed, "case": res.Sample, "steps": res.Steps, "gates": res.Gates})
			}
		}
		if res.Violation != nil {
			sig := res.Violation.Signature
			if vr, ok := sigCount[sig]; ok {
				vr.Count++
				continue
			}
			vr := &ViolationReport{Signature: sig, Detail: res.Violation.Detail, Seed: seed, Count: 1}
			sigCount[sig] = vr
			if !isKnown(res.Violation.Property, sig) && replayDir != "" && minimised < 3 && claimMinimisation(replayDir, res.Violation.Property, sig) {
				// minimise and write the replay file
				orig := res.Tape
				minRuns := 0
				var lastGood RunResult = res
				minimised++
				params := res.Params
				_ = os.MkdirAll(replayDir, 0o755)
				rpath := filepath.Join(replayDir, fmt.Sprintf("%s-%d.json", res.Violation.Property, seed))
				// the unminimised replay first, so that a watchdog kill during
				// minimisation still leaves a usable file
				raw := &ReplayFile{Property: res.Violation.Property, Engine: engine, Scenario: scenario, Tier: tier,
					Seed: seed, Tape: res.Tape, Signature: sig, Detail: res.Violation.Detail, Params: params,
					OrigTape: len(res.Tape), Trace: tail(res.Trace, 120)}
				if raw.Write(rpath) == nil {
					vr.Replay = rpath
					write()
				}
				mk := func(c []uint32) *Tape {
					tp := ReplayTape(seed, c)
					tp.Params = params
					return tp
				}
				minTape, n := Minimise(orig, minBudget, func(c []uint32) bool {
					r := run(t, scenario, tier, mk(c), false)
					if r.Violation != nil && r.Violation.Signature == sig {
						lastGood = r
						return true
					}
					return false
				})
				minRuns = n
				// final confirmation run with the minimised tape, full trace
				conf := run(t, scenario, tier, mk(minTape), true)
				vr.Reproduced = conf.Violation != nil && conf.Violation.Signature == sig
				if !vr.Reproduced {
					minTape = orig
					conf = lastGood
				}
				rf := &ReplayFile{Property: res.Violation.Property, Engine: engine, Scenario: scenario, Tier: tier,
					Seed: seed, Tape: minTape, Signature: sig, Detail: res.Violation.Detail, Params: params,
					OrigTape: len(orig), MinRuns: minRuns, Trace: tail(conf.Trace, 120)}
				if conf.Stats != nil {
					rf.Faults = conf.Stats.Faults
				}
				if err := rf.Write(rpath); err == nil {
					vr.Replay = rpath
				}
			}
		}
		if ri%8 == 0 {
			agg.WallS = time.Since(start).Seconds()
			write()
		}
	}
	agg.WallS = time.Since(start).Seconds()
	write()
}

// claimMinimisation makes sure that only one worker of a batch spends time
// minimising a given violation signature (the others only count it).
func claimMinimisation(dir, prop, sig string) bool {
	_ = os.MkdirAll(dir, 0o755)
	h := Mix(uint64(len(sig)), hashString(prop+sig), 7)
	f, err := os.OpenFile(filepath.Join(dir, fmt.Sprintf(".claim-%s-%016x", prop, h)), os.O_CREATE|os.O_EXCL|os.O_WRONLY, 0o644)
	if err != nil {
		return false
	}
	f.Close()
	return true
}

func hashString(s string) uint64 {
	var h uint64 = 1469598103934665603
	for i := 0; i < len(s); i++ {
		h ^= uint64(s[i])
		h *= 1099511628211
	}
	return h
}

var (
	knownOnce   sync.Once
	knownExact  = map[string]bool{}
	knownRe     []*regexp.Regexp
	knownReProp []string
)

// IsKnownFinding tells whether (property, signature) is listed in the
// committed known-findings file (handed to the worker through the environment;
// the file itself is never written at run time). Enumeration drivers use it to
// keep exploring past a recorded finding instead of stopping at it.
func IsKnownFinding(prop, sig string) bool {
	knownOnce.Do(func() {
		for _, s := range strings.Split(os.Getenv("DST_KNOWN"), "\n") {
			if s = strings.TrimSpace(s); s != "" {
				knownExact[s] = true
			}
		}
		for _, s := range strings.Split(os.Getenv("DST_KNOWN_RE"), "\n") {
			if s = strings.TrimSpace(s); s != "" {
				if i := strings.IndexByte(s, ' '); i > 0 {
					if re, err := regexp.Compile(s[i+1:]); err == nil {
						knownRe = append(knownRe, re)
						knownReProp = append(knownReProp, s[:i])
					}
				}
			}
		}
	})
	if knownExact[prop+" "+sig] {
		return true
	}
	for i, re := range knownRe {
		if knownReProp[i] == prop && re.MatchString(sig) {
			return true
		}
	}
	return false
}

func firstLine(s string) string {
	if i := strings.IndexByte(s, '\n'); i >= 0 {
		s = s[:i]
	}
	if len(s) > 200 {
		s = s[:200]
	}
	return s
}

func tail(s []string, n int) []string {
	if len(s) > n {
		return s[len(s)-n:]
	}
	return s
}
