package round

import (
	"context"
	"crypto/ed25519"
	"encoding/hex"
	"encoding/json"
	"errors"
	"fmt"
	"os"
	"strings"
	"sync"
	"time"

	"github.com/corestario/kyber/pairing"
	"github.com/corestario/kyber/pairing/bls12381"
	"github.com/corestario/kyber/share"
	"github.com/corestario/kyber/sign/tbls"

	"github.com/lidofinance/dc4bc/client/api/dto"
	"github.com/lidofinance/dc4bc/client/config"
	"github.com/lidofinance/dc4bc/client/modules/keystore"
	"github.com/lidofinance/dc4bc/client/modules/state"
	oprepo "github.com/lidofinance/dc4bc/client/repositories/operation"
	sigrepo "github.com/lidofinance/dc4bc/client/repositories/signature"
	"github.com/lidofinance/dc4bc/client/services"
	"github.com/lidofinance/dc4bc/client/services/fsmservice"
	"github.com/lidofinance/dc4bc/client/services/node"
	"github.com/lidofinance/dc4bc/client/services/operation"
	"github.com/lidofinance/dc4bc/client/services/signature"
	"github.com/lidofinance/dc4bc/client/types"
	"github.com/lidofinance/dc4bc/dkg"
	dpf "github.com/lidofinance/dc4bc/fsm/state_machines/dkg_proposal_fsm"
	spf "github.com/lidofinance/dc4bc/fsm/state_machines/signature_proposal_fsm"
	sif "github.com/lidofinance/dc4bc/fsm/state_machines/signing_proposal_fsm"
	"github.com/lidofinance/dc4bc/fsm/types/requests"
	"github.com/lidofinance/dc4bc/storage"

	"dst/sim"
)

const topic = "sim"

// capBoard is the board stub of the round engine: it records what the node
// sends (reconstruction broadcasts) and serves nothing.
type capBoard struct {
	mu   sync.Mutex
	Sent []storage.Message
	// FailNext: the board is unreachable for the next Send (fault injection)
	FailNext bool
	Failed   int
}

func (b *capBoard) Send(msgs ...storage.Message) error {
	b.mu.Lock()
	defer b.mu.Unlock()
	if b.FailNext {
		b.FailNext = false
		b.Failed++
		return errors.New("sim: board unreachable")
	}
	for i := range msgs {
		msgs[i].Offset = uint64(len(b.Sent))
		msgs[i].ID = fmt.Sprintf("cap-%d", len(b.Sent))
		b.Sent = append(b.Sent, msgs[i])
	}
	return nil
}
func (b *capBoard) GetMessages(uint64) ([]storage.Message, error) { return nil, nil }
func (b *capBoard) Close() error                                  { return nil }
func (b *capBoard) IgnoreMessages([]string, bool) error           { return nil }
func (b *capBoard) UnignoreMessages()                             {}

type memKS struct{ kp *keystore.KeyPair }

func (k *memKS) PutKeys(string, *keystore.KeyPair) error            { return nil }
func (k *memKS) LoadKeys(string, string) (*keystore.KeyPair, error) { return k.kp, nil }

type recLog struct {
	mu    sync.Mutex
	Lines []string
}

func (l *recLog) Log(f string, a ...interface{}) {
	l.mu.Lock()
	l.Lines = append(l.Lines, fmt.Sprintf(f, a...))
	l.mu.Unlock()
}

// Node is one real hot node (BaseNodeService and everything below it) on a real
// LevelDB directory, with communication-key verification switched off: in this
// engine the adversary is the history, not the signer.
type Node struct {
	Dir    string
	St     *state.LevelDBState
	Svc    node.NodeService
	FSM    fsmservice.FSMService
	Ops    operation.OperationService
	Sigs   signature.SignatureService
	Board  *capBoard
	Log    *recLog
	Name   string
	cancel context.CancelFunc
}

func NewNode(dir, name string, skipVerify bool) (*Node, error) {
	st, err := state.NewLevelDBState(dir, topic)
	if err != nil {
		return nil, err
	}
	n := &Node{Dir: dir, St: st, Board: &capBoard{}, Log: &recLog{}, Name: name}
	pub, priv, _ := ed25519.GenerateKey(zeroReader{})
	sp := services.ServiceProvider{}
	sp.SetStorage(n.Board)
	sp.SetKeyStore(&memKS{kp: &keystore.KeyPair{Pub: pub, Priv: priv}})
	sp.SetLogger(n.Log)
	sp.SetState(st)
	opRepo, err := oprepo.NewOperationRepo(st, topic)
	if err != nil {
		st.SimClose()
		return nil, err
	}
	sp.SetFSMService(fsmservice.NewFSMService(st, n.Board, topic))
	sp.SetSignatureService(signature.NewSignatureService(sigrepo.NewSignatureRepo(st)))
	sp.SetOperationService(operation.NewOperationService(opRepo))
	ctx, cancel := context.WithCancel(context.Background())
	n.cancel = cancel
	svc, err := node.NewNode(ctx, &config.Config{Username: name, KafkaStorageConfig: &config.KafkaStorageConfig{Topic: topic}}, &sp)
	if err != nil {
		st.SimClose()
		return nil, err
	}
	svc.SetSkipCommKeysVerification(skipVerify)
	n.Svc, n.FSM, n.Ops, n.Sigs = svc, sp.GetFSMService(), sp.GetOperationService(), sp.GetSignatureService()
	return n, nil
}

type zeroReader struct{}

func (zeroReader) Read(p []byte) (int, error) {
	for i := range p {
		p[i] = 7
	}
	return len(p), nil
}

func (n *Node) Close() {
	n.cancel()
	_ = n.St.SimClose()
}

func (n *Node) Snapshot() map[string][]byte {
	s, _ := n.St.SimSnapshot()
	return s
}

// RoundDump returns the persisted dump bytes of the round ("" if absent).
func (n *Node) RoundDump(round string) string {
	bz, _ := n.St.Get(topic + "_" + fsmservice.FSMStateKey)
	if len(bz) == 0 {
		return ""
	}
	m := map[string][]byte{}
	if json.Unmarshal(bz, &m) != nil {
		return "?"
	}
	return string(m[round])
}

func (n *Node) RoundState(round string) string {
	d := n.RoundDump(round)
	if d == "" {
		return "__idle"
	}
	var x struct{ State string }
	_ = json.Unmarshal([]byte(d), &x)
	return x.State
}

// AbstractPhase maps a product state name to the model's phase.
func AbstractPhase(st string) (Phase, bool) {
	switch st {
	case "", "__idle":
		return PhIdle, true
	case string(spf.StateAwaitParticipantsConfirmations):
		return PhInvited, true
	case string(dpf.StateDkgCommitsAwaitConfirmations):
		return PhCommits, true
	case string(dpf.StateDkgDealsAwaitConfirmations):
		return PhDeals, true
	case string(dpf.StateDkgResponsesAwaitConfirmations):
		return PhResponses, true
	case string(dpf.StateDkgMasterKeyAwaitConfirmations):
		return PhKeys, true
	case string(sif.StateSigningIdle):
		return PhReady, true
	case string(sif.StateSigningAwaitPartialSigns):
		return PhSigning, true
	case string(sif.StateSigningPartialSignsAwaitCancelledByError), string(sif.StateSigningPartialSignsAwaitCancelledByTimeout):
		return PhReady, true // batch cancelled, restart pending (lazy in the product)
	}
	if strings.Contains(st, "cancel") {
		return PhCancelled, true
	}
	return PhIdle, false // transient states must never be persisted
}

// ---- history -> messages ----------------------------------------------------

// Fixture holds the fabricated round material: participant names, opaque DKG
// blobs, and a harness-held (t,n) sharing for real partial signatures.
type Fixture struct {
	N, T        int
	Round       string
	Names       []string
	Base        time.Time
	seq         int
	suite       pairing.Suite
	pri         *share.PriPoly
	Pub         *share.PubPoly
	Shares      []*share.PriShare
	GroupKey    []byte
	PolyBz      []byte
	OtherKey    []byte
	OtherPolyBz []byte
	// signing batches proposed so far (history order)
	BatchIDs     []string
	BatchMsgs    [][]requests.SigningTask
	otherShares  []*share.PriShare
	SignShares   []*share.PriShare
	SignKey      []byte
	pendingBatch string
	pendingTasks []requests.SigningTask
	rng          *sim.SplitMix64
}

type detStream struct{ r *sim.SplitMix64 }

func (d detStream) XORKeyStream(dst, src []byte) {
	for i := range dst {
		dst[i] = src[i] ^ byte(d.r.Next())
	}
}

func NewFixture(n, t int, seed uint64, base time.Time) *Fixture {
	f := &Fixture{N: n, T: t, Base: base, rng: sim.NewRNG(seed)}
	f.Round = fmt.Sprintf("%064x", seed)
	for i := 0; i < n; i++ {
		f.Names = append(f.Names, fmt.Sprintf("part_%d", i))
	}
	f.suite = bls12381.NewBLS12381Suite(nil).(pairing.Suite)
	mk := func() (*share.PriPoly, *share.PubPoly, []byte, []byte) {
		pri := share.NewPriPoly(f.suite.G1(), t, nil, detStream{f.rng})
		pub := pri.Commit(f.suite.G1().Point().Base())
		gk, _ := pub.Commit().MarshalBinary()
		bz, _ := (&dkg.BLSKeyring{PubPoly: pub}).PubPolyBytes()
		return pri, pub, gk, bz
	}
	f.pri, f.Pub, f.GroupKey, f.PolyBz = mk()
	f.Shares = f.pri.Shares(n)
	var opri *share.PriPoly
	opri, _, f.OtherKey, f.OtherPolyBz = mk()
	f.otherShares = opri.Shares(n)
	f.SignShares, f.SignKey = f.Shares, f.GroupKey
	return f
}

// UseKeyVariant selects the sharing that matches the polynomial the round
// ended up with (variant of the accepted key announcements).
func (f *Fixture) UseKeyVariant(v int) {
	if v == 0 || v == 3 {
		// variant 3 announces another key but the first polynomial, which is
		// what reconstruction uses
		f.SignShares, f.SignKey = f.Shares, f.GroupKey
	} else {
		f.SignShares, f.SignKey = f.otherShares, f.OtherKey
	}
}

func (f *Fixture) name(pid int) string {
	if pid >= 0 && pid < f.N {
		return f.Names[pid]
	}
	return fmt.Sprintf("stranger_%d", pid)
}

func (f *Fixture) stamp(late bool) time.Time {
	f.seq++
	t := f.Base.Add(time.Duration(f.seq) * time.Second)
	if late {
		t = t.Add(8 * 24 * time.Hour)
	}
	return t
}

// error texts a participant may report: what an airgapped machine prints is
// arbitrary (terminal colours, quotes, non-ASCII, control bytes, long traces)
var errTexts = []string{
	"reported",
	"failed to process deals: \"commits are different\"",
	"\x1b[31mERROR\x1b[0m share verification failed",
	"nul\x00 bel\a del\x7f tab\t newline\n",
	"не удалось расшифровать сделку — 解密失败 🔑",
	"invalid utf8 \xff\xfe end",
	"<script>&amp;</script> \\ backslash \u2028 sep",
	strings.Repeat("very long error text ", 40),
}

func blob(tag string, pid int) []byte {
	return []byte(fmt.Sprintf("%s-of-%d-%s", tag, pid, strings.Repeat("x", 20)))
}

// Message builds the board message of one history event.
func (f *Fixture) Message(e Ev, offset int) storage.Message {
	var ev string
	var data interface{}
	at := f.stamp(e.Late)
	errText := errTexts[e.Var%len(errTexts)]
	// error reports are encoded with a harness-local struct (plain string),
	// not with the product's own FSMError marshaller: other senders exist
	type wireErr struct {
		ParticipantId int
		Error         string
		CreatedAt     time.Time
		BatchID       string `json:",omitempty"`
	}
	errReq := func() interface{} {
		return wireErr{ParticipantId: e.Pid, Error: errText, CreatedAt: at}
	}
	switch e.Kind {
	case EvInit:
		ev = string(spf.EventInitProposal)
		var ps []*requests.SignatureProposalParticipantsEntry
		for i := 0; i < f.N; i++ {
			nm := f.Names[i]
			if e.BadInit == 3 && i == f.N-1 {
				nm = f.Names[0]
			}
			ps = append(ps, &requests.SignatureProposalParticipantsEntry{Username: nm, PubKey: []byte(fmt.Sprintf("pubkey-%02d-%s", i, strings.Repeat("k", 22))), DkgPubKey: blob("dkgpub", i)})
		}
		th := f.T
		if e.BadInit == 1 {
			th = f.N + 1
		} else if e.BadInit == 2 {
			th = 1
		}
		data = requests.SignatureProposalParticipantsListRequest{Participants: ps, SigningThreshold: th, CreatedAt: at}
	case EvConfirm, EvDecline:
		ev = string(spf.EventConfirmSignatureProposal)
		if e.Kind == EvDecline {
			ev = string(spf.EventDeclineProposal)
		}
		data = requests.SignatureProposalParticipantRequest{ParticipantId: e.Pid, CreatedAt: at}
	case EvCommit:
		ev = string(dpf.EventDKGCommitConfirmationReceived)
		r := requests.DKGProposalCommitConfirmationRequest{ParticipantId: e.Pid, Commit: blob("commit", e.Pid), CreatedAt: at}
		if e.Empty {
			r.Commit = nil
		}
		data = r
	case EvDeal:
		ev = string(dpf.EventDKGDealConfirmationReceived)
		r := requests.DKGProposalDealConfirmationRequest{ParticipantId: e.Pid, Deal: blob("deal", e.Pid), CreatedAt: at}
		if e.Empty {
			r.Deal = nil
		}
		data = r
	case EvResponse:
		ev = string(dpf.EventDKGResponseConfirmationReceived)
		r := requests.DKGProposalResponseConfirmationRequest{ParticipantId: e.Pid, Response: blob("response", e.Pid), CreatedAt: at}
		if e.Empty {
			r.Response = nil
		}
		data = r
	case EvKey:
		ev = string(dpf.EventDKGMasterKeyConfirmationReceived)
		r := requests.DKGProposalMasterKeyConfirmationRequest{ParticipantId: e.Pid, MasterKey: f.GroupKey, PubPolyBz: f.PolyBz, CreatedAt: at}
		switch e.Var {
		case 1:
			r.MasterKey, r.PubPolyBz = f.OtherKey, f.OtherPolyBz
		case 2:
			r.PubPolyBz = f.OtherPolyBz
		case 3: // another group key next to the common polynomial
			r.MasterKey = f.OtherKey
		}
		if e.Empty {
			r.MasterKey = nil
		}
		data = r
	case EvErrCommit:
		ev, data = string(dpf.EventDKGCommitConfirmationError), errReq()
	case EvErrDeal:
		ev, data = string(dpf.EventDKGDealConfirmationError), errReq()
	case EvErrResponse:
		ev, data = string(dpf.EventDKGResponseConfirmationError), errReq()
	case EvErrKey:
		ev, data = string(dpf.EventDKGMasterKeyConfirmationError), errReq()
	case EvStart:
		ev = string(sif.EventSigningStart)
		bid := fmt.Sprintf("batch-%d-%08x", len(f.BatchIDs), uint32(f.rng.Next()))
		var tasks []requests.SigningTask
		if !e.Empty {
			k := 1 + int(f.rng.Next()%2)
			for j := 0; j < k; j++ {
				tasks = append(tasks, requests.SigningTask{MessageID: fmt.Sprintf("m%d-%d", len(f.BatchIDs), j), File: fmt.Sprintf("f%d", j), Payload: []byte(fmt.Sprintf("payload %d/%d %x", len(f.BatchIDs), j, f.rng.Next()))})
			}
		}
		data = requests.SigningBatchProposalStartRequest{BatchID: bid, ParticipantId: e.Pid, CreatedAt: at, SigningTasks: tasks}
		f.pendingBatch, f.pendingTasks = bid, tasks
	case EvPartial:
		ev = string(sif.EventSigningPartialSignReceived)
		bid, tasks := f.batchRef(e.Batch)
		r := requests.SigningProposalBatchPartialSignRequests{BatchID: bid, ParticipantId: e.Pid, CreatedAt: at}
		if e.Empty && (e.Pid+len(f.BatchIDs))%2 == 0 {
			// an empty list that is present ("[]", what a machine that signed nothing
			// writes) as opposed to an absent one ("null")
			r.PartialSigns = []requests.PartialSign{}
		}
		if !e.Empty {
			for _, tk := range tasks {
				var sg []byte
				if e.Pid >= 0 && e.Pid < f.N && e.Var == 0 {
					sg, _ = tbls.Sign(f.suite, f.SignShares[e.Pid], tk.Payload)
				} else {
					sg = append([]byte{0, byte(e.Pid & 0xff)}, make([]byte, 96)...)
				}
				r.PartialSigns = append(r.PartialSigns, requests.PartialSign{MessageID: tk.MessageID, Sign: sg})
			}
		}
		data = r
	case EvErrSign:
		ev = string(sif.EventSigningPartialSignError)
		r := wireErr{ParticipantId: e.Pid, Error: errText, CreatedAt: at}
		if e.Batch >= 0 {
			// the machine names the batch it could not sign (e.Batch < 0: a report in
			// the format of older versions, without a batch id)
			r.BatchID, _ = f.batchRef(e.Batch)
		}
		data = r
	}
	bz, _ := json.Marshal(data)
	return storage.Message{ID: fmt.Sprintf("h-%d", offset), DkgRoundID: f.Round, Offset: uint64(offset), Event: ev, Data: bz, SenderAddr: f.name(e.Pid)}
}

// batchRef: 0 = the batch currently open (last accepted), 1 = the one before, 2 = never proposed.
func (f *Fixture) batchRef(which int) (string, []requests.SigningTask) {
	switch {
	case which == 0 && len(f.BatchIDs) >= 1:
		return f.BatchIDs[len(f.BatchIDs)-1], f.BatchMsgs[len(f.BatchMsgs)-1]
	case which == 1 && len(f.BatchIDs) >= 2:
		return f.BatchIDs[len(f.BatchIDs)-2], f.BatchMsgs[len(f.BatchMsgs)-2]
	}
	return "batch-never-proposed", []requests.SigningTask{{MessageID: "ghost", Payload: []byte("ghost")}}
}

// AcceptStart is called by the driver when the model accepted a start event.
func (f *Fixture) AcceptStart() {
	f.BatchIDs = append(f.BatchIDs, f.pendingBatch)
	f.BatchMsgs = append(f.BatchMsgs, f.pendingTasks)
}

// ProposeDTO is a fresh proposal for the "accepts the next proposal" check.
func (f *Fixture) ProposeDTO() *dto.ProposeSignBatchMessagesDTO {
	id, _ := hex.DecodeString(f.Round)
	return &dto.ProposeSignBatchMessagesDTO{DkgID: id, Data: map[string][]byte{"probe": []byte("probe")}}
}

var _ = types.ReinitDKG
var _ = os.Remove
