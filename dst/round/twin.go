package round

import (
	"bytes"
	"encoding/json"
	"fmt"
	"sort"
	"strings"
	"time"

	"github.com/lidofinance/dc4bc/client/api/dto"
	"github.com/lidofinance/dc4bc/client/modules/state"
	"github.com/lidofinance/dc4bc/client/services/fsmservice"
	"github.com/lidofinance/dc4bc/client/types"
	"github.com/lidofinance/dc4bc/fsm/fsm"
	"github.com/lidofinance/dc4bc/fsm/state_machines"
	dpf "github.com/lidofinance/dc4bc/fsm/state_machines/dkg_proposal_fsm"
	spf "github.com/lidofinance/dc4bc/fsm/state_machines/signature_proposal_fsm"
	sif "github.com/lidofinance/dc4bc/fsm/state_machines/signing_proposal_fsm"
	"github.com/lidofinance/dc4bc/fsm/types/requests"

	"dst/sim"
)

// memState is an in-memory state.State for the FSM service used by the
// "restore and list" oracle of C19.
type memState struct{ m map[string][]byte }

func (s *memState) Get(k string) ([]byte, error) { return s.m[k], nil }
func (s *memState) GetOrError(k string) ([]byte, error) {
	v, ok := s.m[k]
	if !ok {
		return nil, fmt.Errorf("not found")
	}
	return v, nil
}
func (s *memState) Set(k string, v []byte) error { s.m[k] = append([]byte(nil), v...); return nil }
func (s *memState) Delete(k string) error        { delete(s.m, k); return nil }
func (s *memState) Reset(string) (string, error) { s.m = map[string][]byte{}; return "", nil }
func (s *memState) SaveOffset(uint64) error      { return nil }
func (s *memState) LoadOffset() (uint64, error)  { return 0, nil }

var _ state.State = (*memState)(nil)

// twin is one of the two executions of C19.
type twin struct {
	// keepAfterError: the instance stays in memory even across a refused event
	// (a caller of the FSM package that does not reload after an error)
	keepAfterError bool
	restoreAlways  bool
	inst           *state_machines.FSMInstance // kept across events when !restoreAlways
	dump           []byte
}

type stepOut struct {
	err   string
	state string
	data  string
	dump  string
}

func canon(v interface{}) string {
	if v == nil {
		return "null"
	}
	b, err := json.Marshal(v)
	if err != nil {
		return "unmarshalable:" + err.Error()
	}
	// through a generic value so that map order and struct/pointer differences vanish
	var g interface{}
	if json.Unmarshal(b, &g) != nil {
		return string(b)
	}
	b2, _ := json.Marshal(g)
	return string(b2)
}

// canonUnordered is canon for answers whose top-level list is built by walking a
// map (the order of its entries is not part of the answer).
func canonUnordered(v interface{}) string {
	b, err := json.Marshal(v)
	if err != nil {
		return canon(v)
	}
	var l []json.RawMessage
	if json.Unmarshal(b, &l) != nil {
		return canon(v)
	}
	var items []string
	for _, it := range l {
		var g interface{}
		_ = json.Unmarshal(it, &g)
		c, _ := json.Marshal(g)
		items = append(items, string(c))
	}
	sort.Strings(items)
	return "[" + strings.Join(items, ",") + "]"
}

// apply feeds one event the way the node's message handler does: the event
// itself, then the manual hand-over events between the three machines (where
// the product always restores from the dump, so both twins do).
func (tw *twin) apply(round string, event string, req interface{}, now time.Time) (out stepOut, restoreErr error) {
	var inst *state_machines.FSMInstance
	var err error
	if tw.inst != nil && !tw.restoreAlways {
		inst = tw.inst
	} else if tw.dump == nil {
		inst, err = state_machines.Create(round)
	} else {
		inst, err = state_machines.FromDump(tw.dump)
	}
	if err != nil {
		return stepOut{err: "restore: " + err.Error()}, err
	}
	// lazy restart of a cancelled signing batch (processMessage does this
	// before handling the message)
	st := string(inst.FSMDump().State)
	if (strings.HasSuffix(st, "_error") || strings.HasSuffix(st, "_timeout")) && strings.HasPrefix(st, "state_signing_") {
		_, d, e := inst.Do(sif.EventSigningRestart, requests.DefaultRequest{CreatedAt: now})
		if e == nil {
			tw.dump = d
			inst, err = state_machines.FromDump(d)
			if err != nil {
				return stepOut{err: "restore: " + err.Error()}, err
			}
		}
	}
	resp, d, e := inst.Do(fsm.Event(event), req)
	if e != nil {
		if tw.keepAfterError {
			tw.inst = inst
			return stepOut{err: "rejected", dump: canon(inst.FSMDump())}, nil
		}
		tw.inst = nil // the product discards the instance after an error
		return stepOut{err: "rejected", dump: string(tw.dump)}, nil
	}
	// what the event itself answered is compared as well as what the hand-overs
	// answer (the node acts on both: e.g. the collected partial signatures)
	datas := canonUnordered(resp.Data)
	handover := func(ev fsm.Event) error {
		inst, err = state_machines.FromDump(d)
		if err != nil {
			return err
		}
		resp, d, e = inst.Do(ev, requests.DefaultRequest{CreatedAt: now})
		if e == nil {
			datas += " | " + canon(resp.Data)
		}
		return e
	}
	var herr error
	if resp.State == spf.StateSignatureProposalCollected {
		herr = handover(dpf.EventDKGInitProcess)
	}
	if herr == nil && resp.State == dpf.StateDkgMasterKeyCollected {
		herr = handover(sif.EventSigningInit)
	}
	if herr == nil && resp.State == sif.StateSigningPartialSignsCollected {
		herr = handover(sif.EventSigningRestart)
	}
	if herr != nil {
		tw.inst = nil
		return stepOut{err: "handover: " + herr.Error(), dump: string(tw.dump)}, nil
	}
	tw.dump = d
	tw.inst = inst
	return stepOut{state: string(resp.State), data: datas, dump: string(d)}, nil
}

// runTwin is C19: the same generated history drives twin A (continues in
// memory) and twin B (dump + restore before every event); every reached state
// must be restorable and listable.
func runTwin(tp *sim.Tape, tier string, o *runOut) {
	maxN := 4
	if tier == "thorough" {
		maxN = 6
	}
	n := 2 + tp.Choose(maxN-1, "n")
	t := 2 + tp.Choose(n-1, "t")
	base := time.Date(2024, 1, 1, 0, 0, 0, 0, time.UTC)
	if tp.Choose(12, "endOfTime?") == 0 {
		// time stamps are whatever the senders write (the opening proposal is not even
		// authenticated): a round dated so late that its deadlines fall behind the last
		// year a time stamp can be written down in
		base = []time.Time{time.Date(9999, 12, 27, 12, 0, 0, 0, time.UTC), time.Date(9999, 12, 24, 23, 59, 56, 0, time.UTC)}[tp.Choose(2, "endOfTimeBase")]
		o.stats.Fault("round-dated-at-the-end-of-representable-time")
	}
	f := NewFixture(n, t, tp.Seed, base)
	m := NewModel(n, t)
	a := &twin{}
	b := &twin{restoreAlways: true}
	otherRounds := map[string]string{}
	length := 10 + tp.Choose(70, "len")
	focus := []string{"dkg", "signing"}[tp.Choose(2, "focus")]
	var hist []string
	compared := 0
	svc := fsmservice.NewFSMService(&memState{m: map[string][]byte{}}, nil, topic)
	for i := 0; i < length && o.viol == nil; i++ {
		e := genEvent(tp, m, f, focus)
		msg := f.Message(e, i)
		hist = append(hist, e.String())
		r := m.Step(e)
		if m.KeyVar >= 0 {
			f.UseKeyVariant(m.KeyVar)
		}
		if e.Kind == EvStart && r.Exp == ExpAccept {
			f.AcceptStart()
		}
		req, err := types.FSMRequestFromMessage(msg)
		if err != nil {
			continue
		}
		now := base.Add(time.Duration(i) * time.Minute)
		oa, ra := a.apply(f.Round, msg.Event, req, now)
		ob, rb := b.apply(f.Round, msg.Event, req, now)
		o.steps++
		o.log.Add("%s -> A:%s%s B:%s%s", e, oa.state, oa.err, ob.state, ob.err)
		h := strings.Join(hist, " ")
		if ra != nil || rb != nil {
			st := stateOf(b.dump)
			fail(o, "C19", "state-not-restorable/"+st, fmt.Sprintf("the round reached state %s, which cannot be loaded back: %v; history: %s", st, firstErr(ra, rb), h))
			break
		}
		compared++
		switch {
		case (oa.err == "") != (ob.err == ""):
			fail(o, "C19", "acceptance-differs/"+e.Kind.String(), fmt.Sprintf("%s: in-memory twin: %q, restored twin: %q; history: %s", e, oa.err, ob.err, h))
		case oa.state != ob.state:
			fail(o, "C19", "next-state-differs/"+e.Kind.String(), fmt.Sprintf("%s: in-memory -> %s, restored -> %s; history: %s", e, oa.state, ob.state, h))
		case oa.data != ob.data:
			fail(o, "C19", "response-data-differs/"+e.Kind.String(), fmt.Sprintf("%s: response data differ: %.300s vs %.300s; history: %s", e, oa.data, ob.data, h))
		case oa.dump != ob.dump:
			fail(o, "C19", "dump-differs/"+e.Kind.String(), fmt.Sprintf("%s: dumps differ after the event: %.400s vs %.400s; history: %s", e, oa.dump, ob.dump, h))
		}
		if o.viol != nil || ob.err != "" {
			continue
		}
		// every reached state: restore and list
		st := stateOf(b.dump)
		o.abstract["state:"+st] = true
		if _, err := state_machines.FromDump(b.dump); err != nil {
			fail(o, "C19", "state-not-restorable/"+st, fmt.Sprintf("the round reached state %s, which cannot be loaded back: %v; history: %s", st, err, h))
			break
		}
		_ = svc.SaveFSM(f.Round, b.dump)
		// the node holds other rounds as well: earlier states of this history are kept
		// under ids of their own (a ring of five), and every one of them is listed in the
		// state it was saved in - also when several are owned by the same machine
		if tp.Choose(2, "keepAsAnotherRound?") == 0 {
			key := fmt.Sprintf("other-round-%d", len(otherRounds)%5)
			_ = svc.SaveFSM(key, b.dump)
			otherRounds[key] = st
			o.stats.Probe("several-rounds-listed")
		}
		if lst, err := svc.GetFSMList(); err != nil {
			fail(o, "C19", "round-not-listable/"+st, fmt.Sprintf("GetFSMList fails with the round in state %s: %v; history: %s", st, err, h))
			break
		} else if lst[f.Round] != st {
			fail(o, "C19", "listed-state-differs-from-saved-state/"+st, fmt.Sprintf("the round was saved in state %s but GetFSMList reports %q; history: %s", st, lst[f.Round], h))
			break
		} else {
			bad := ""
			for k, want := range otherRounds {
				if lst[k] != want && (bad == "" || k < bad) {
					bad = k
				}
			}
			if bad != "" {
				fail(o, "C19", "listed-state-differs-from-saved-state/"+otherRounds[bad], fmt.Sprintf("with %d rounds stored, the round saved in state %s is listed as %q; history: %s", len(otherRounds)+1, otherRounds[bad], lst[bad], h))
				break
			}
		}
		if inst, err := state_machines.FromDump(b.dump); err == nil {
			if ms, _ := inst.State(); string(ms) != st {
				fail(o, "C19", "restored-machine-in-another-state/"+st, fmt.Sprintf("a round saved in state %s is restored with its machine in state %s; history: %s", st, ms, h))
				break
			}
		}
		if d, err := svc.GetFSMDump(&dto.DkgIdDTO{DkgID: f.Round}); err != nil || string(d.State) != st {
			fail(o, "C19", "round-not-inspectable/"+st, fmt.Sprintf("GetFSMDump fails with the round in state %s: %v; history: %s", st, err, h))
			break
		}
		// the node also changes a loaded round without an event (reinitialisation:
		// new communication keys through SetPubKeyUsername, the public polynomial
		// written into the payload) and saves it with Dump(): what is saved must be
		// the round as it is in memory
		if tp.Choose(4, "directUpdate?") == 0 {
			if inst, err := state_machines.FromDump(b.dump); err == nil && inst.FSMDump().Payload != nil && len(inst.FSMDump().Payload.PubKeys) > 0 {
				who := f.Names[tp.Choose(len(f.Names), "whoseKey")]
				nk := make([]byte, 32)
				for k := range nk {
					nk[k] = byte(tp.Choose(256, "keyByte"))
				}
				inst.FSMDump().Payload.SetPubKeyUsername(who, nk)
				if pp := inst.FSMDump().Payload.DKGProposalPayload; pp != nil {
					pp.PubPolyBz = append([]byte("poly-"), nk[:8]...)
				}
				saved, derr := inst.Dump()
				if derr != nil {
					fail(o, "C19", "updated-round-not-savable/"+st, fmt.Sprintf("%v; history: %s", derr, h))
					break
				}
				back, rerr := state_machines.FromDump(saved)
				if rerr != nil {
					fail(o, "C19", "state-not-restorable/"+st, fmt.Sprintf("after a direct update of the payload: %v; history: %s", rerr, h))
					break
				}
				if canon(inst.FSMDump()) != canon(back.FSMDump()) {
					fail(o, "C19", "saved-round-differs-from-round-in-memory/"+st, fmt.Sprintf("a round in state %s was loaded, participant %s got a new communication key through the payload accessor, and Dump()+FromDump() gives back a round without that change; history: %s", st, who, h))
					break
				}
				o.stats.Probe("direct-payload-update-saved-and-restored")
			}
		}
		// the restored dump re-marshals to the same bytes (nothing is lost by persisting)
		if inst, err := state_machines.FromDump(b.dump); err == nil {
			if again, err := inst.Dump(); err != nil || !bytes.Equal(again, b.dump) {
				fail(o, "C19", "dump-not-stable/"+st, fmt.Sprintf("dump -> restore -> dump changes the bytes in state %s; history: %s", st, h))
			}
		}
	}
	o.stats.ProbeN("twin-steps-compared", compared)
	o.nontrivial = compared >= 5
	if len(hist) > 40 {
		hist = append(hist[:40], "…")
	}
	o.sample = map[string]interface{}{"n": n, "t": t, "history": strings.Join(hist, " "), "final_state": stateOf(b.dump)}
}

func stateOf(dump []byte) string {
	var x struct{ State string }
	_ = json.Unmarshal(dump, &x)
	return x.State
}

func firstErr(es ...error) error {
	for _, e := range es {
		if e != nil {
			return e
		}
	}
	return nil
}

func init() {
	scenarios["C19-twin"] = &scenario{bubble: false, run: runTwin}
}
