package round

import (
	"io"
	"log"
	"os"
	"testing"

	"dst/sim"
)

func TestWorker(t *testing.T) {
	log.SetOutput(io.Discard)
	if devnull, err := os.OpenFile(os.DevNull, os.O_WRONLY, 0); err == nil {
		os.Stdout = devnull
	}
	sim.WorkerMain(t, "round", RunOne)
}
