// Package round is the single-round engine: the bare FSMInstance and one real
// hot node (real BaseNodeService, FSM service, repositories, LevelDB) are fed
// synthetic adversarial board histories next to a small executable reference
// model and a dump/restore twin. DKG contributions are opaque blobs to the hot
// node, so no ceremony cryptography is needed; signing histories use a
// harness-held (t,n) sharing so that thousands of histories per second are
// possible.
package round

import "fmt"

// Phase of the reference model.
type Phase int

const (
	PhIdle Phase = iota
	PhInvited
	PhCommits
	PhDeals
	PhResponses
	PhKeys
	PhReady     // signing-ready, no batch open
	PhSigning   // a batch is open
	PhCancelled // cancelled for good (DKG)
)

var phaseNames = []string{"idle", "invited", "commits", "deals", "responses", "keys", "ready", "signing", "cancelled"}

func (p Phase) String() string { return phaseNames[p] }

// EvKind is the public event alphabet.
type EvKind int

const (
	EvInit EvKind = iota
	EvConfirm
	EvDecline
	EvCommit
	EvDeal
	EvResponse
	EvKey
	EvErrCommit
	EvErrDeal
	EvErrResponse
	EvErrKey
	EvStart   // signing proposal
	EvPartial // partial signatures
	EvErrSign // signing error report
	EvRecon   // signature_reconstructed broadcast (stored, no FSM effect)
	evKinds
)

var evNames = []string{"init", "confirm", "decline", "commit", "deal", "response", "key",
	"err_commit", "err_deal", "err_response", "err_key", "start", "partial", "err_sign", "recon"}

func (k EvKind) String() string { return evNames[k] }

// Ev is one history event.
type Ev struct {
	Kind    EvKind
	Pid     int  // claimed participant id (may be unknown or negative)
	Late    bool // CreatedAt beyond the 7-day deadline
	Empty   bool // empty contribution payload
	Var     int  // key: 0 common key, 1 differing key, 2 common key + differing polynomial; partial: 0 valid, 1 junk
	Batch   int  // partial/err_sign: 0 current batch, 1 the previous (stale) batch, 2 never proposed
	BadInit int  // init: 0 valid, 1 threshold>n, 2 threshold<2, 3 duplicate user names
}

func (e Ev) String() string {
	s := fmt.Sprintf("%s(p%d", e.Kind, e.Pid)
	if e.Late {
		s += ",late"
	}
	if e.Empty {
		s += ",empty"
	}
	if e.Var != 0 {
		s += fmt.Sprintf(",var%d", e.Var)
	}
	if e.Batch != 0 {
		s += fmt.Sprintf(",batch-%d", e.Batch)
	}
	if e.BadInit != 0 {
		s += fmt.Sprintf(",bad%d", e.BadInit)
	}
	return s + ")"
}

// Expect is the model's verdict on one event; Either where the statement is silent.
type Expect int

const (
	ExpAccept Expect = iota // accepted, model advanced
	ExpReject               // must be rejected and change nothing
	ExpEither               // the statement does not decide
)

// Model is the executable reference model of one round on one node (C05 + C06).
type Model struct {
	N, T      int
	Ph        Phase
	Delivered [4 + 1]uint32 // per DKG phase index (invited..keys): bitmask of participants that delivered
	KeyVar    int           // variant of the first accepted key announcement (-1 none)
	// signing
	Batches int    // proposals accepted so far
	Conf    uint32 // participants whose partial signatures were accepted for the open batch
	Failed  uint32
	// bookkeeping for the oracle
	ReadyVia      int  // number of phases completed by unanimity on the way
	LazyCancelled bool // signing batch cancelled, restart pending (lazy in the product)
}

func NewModel(n, t int) *Model { return &Model{N: n, T: t, KeyVar: -1} }

func (m *Model) Clone() *Model { c := *m; return &c }

func (m *Model) known(pid int) bool { return pid >= 0 && pid < m.N }

func popcount(x uint32) int {
	c := 0
	for ; x != 0; x &= x - 1 {
		c++
	}
	return c
}

func phaseIdx(p Phase) int { return int(p) - int(PhInvited) }

// contribution event and error event of each DKG phase
var phaseEv = map[Phase]EvKind{PhCommits: EvCommit, PhDeals: EvDeal, PhResponses: EvResponse, PhKeys: EvKey}
var phaseErr = map[Phase]EvKind{PhCommits: EvErrCommit, PhDeals: EvErrDeal, PhResponses: EvErrResponse, PhKeys: EvErrKey}

// Step advances the model and tells what the implementation must do.
// Result.Phase is the phase expected after an accepted event.
type Result struct {
	Exp       Expect
	Completed bool // this event completed a unanimous phase
	Collected bool // this event made the t-th contribution: reconstruction must start now
	Cancelled bool // this event cancels (round or batch)
	Why       string
}

func (m *Model) Step(e Ev) Result {
	// events that carry no FSM meaning
	if e.Kind == EvRecon {
		return Result{Exp: ExpEither}
	}
	switch m.Ph {
	case PhIdle:
		if e.Kind == EvInit {
			if e.BadInit != 0 {
				return Result{Exp: ExpReject, Why: "invalid proposal"}
			}
			m.Ph = PhInvited
			return Result{Exp: ExpAccept}
		}
		return Result{Exp: ExpReject, Why: "no round yet"}
	case PhCancelled:
		// cancelled for good: nothing may bring it back. Whether further
		// error reports are recorded is not stated.
		switch e.Kind {
		case EvErrCommit, EvErrDeal, EvErrResponse, EvErrKey:
			return Result{Exp: ExpEither}
		}
		return Result{Exp: ExpReject, Why: "round is cancelled"}
	case PhInvited:
		if e.Kind != EvConfirm && e.Kind != EvDecline {
			return Result{Exp: ExpReject, Why: "not acceptable while inviting"}
		}
		if !m.known(e.Pid) {
			return Result{Exp: ExpReject, Why: "unknown participant"}
		}
		i := phaseIdx(PhInvited)
		if m.Delivered[i]&(1<<uint(e.Pid)) != 0 {
			if e.Late {
				return Result{Exp: ExpEither} // a late duplicate: expiry vs duplicate is not ordered by the statement
			}
			return Result{Exp: ExpReject, Why: "already answered"}
		}
		if e.Late {
			m.Ph = PhCancelled
			return Result{Exp: ExpAccept, Cancelled: true, Why: "deadline expired"}
		}
		if e.Kind == EvDecline {
			m.Ph = PhCancelled
			return Result{Exp: ExpAccept, Cancelled: true, Why: "declined"}
		}
		m.Delivered[i] |= 1 << uint(e.Pid)
		if popcount(m.Delivered[i]) == m.N {
			m.Ph = PhCommits
			m.ReadyVia++
			return Result{Exp: ExpAccept, Completed: true}
		}
		return Result{Exp: ExpAccept}
	case PhCommits, PhDeals, PhResponses, PhKeys:
		i := phaseIdx(m.Ph)
		if e.Kind == phaseErr[m.Ph] {
			if !m.known(e.Pid) {
				return Result{Exp: ExpReject, Why: "unknown participant"}
			}
			if m.Delivered[i]&(1<<uint(e.Pid)) != 0 {
				return Result{Exp: ExpReject, Why: "already delivered"}
			}
			m.Ph = PhCancelled
			return Result{Exp: ExpAccept, Cancelled: true, Why: "error reported"}
		}
		if (m.Ph == PhDeals && (e.Kind == EvErrResponse || e.Kind == EvErrKey)) || (m.Ph == PhResponses && e.Kind == EvErrKey) {
			// deals are addressed to single participants: a participant who has all of
			// his may report a failure of a later step while this node still collects
			// deals (or, having missed the responses published meanwhile, still waits
			// for responses); "a reported error puts the round into a cancelled state"
			if !m.known(e.Pid) {
				return Result{Exp: ExpReject, Why: "unknown participant"}
			}
			m.Ph = PhCancelled
			return Result{Exp: ExpAccept, Cancelled: true, Why: "error of a later step reported to a node that is behind"}
		}
		if e.Kind != phaseEv[m.Ph] {
			return Result{Exp: ExpReject, Why: "not acceptable in this phase"}
		}
		if !m.known(e.Pid) {
			return Result{Exp: ExpReject, Why: "unknown participant"}
		}
		if e.Empty {
			return Result{Exp: ExpReject, Why: "empty contribution"}
		}
		if m.Delivered[i]&(1<<uint(e.Pid)) != 0 {
			return Result{Exp: ExpReject, Why: "duplicate delivery"}
		}
		if e.Late {
			m.Ph = PhCancelled
			return Result{Exp: ExpAccept, Cancelled: true, Why: "deadline expired"}
		}
		if m.Ph == PhKeys {
			if m.KeyVar >= 0 && e.Var != m.KeyVar {
				m.Ph = PhCancelled
				return Result{Exp: ExpAccept, Cancelled: true, Why: "differing key announcement"}
			}
			if m.KeyVar < 0 {
				m.KeyVar = e.Var
			}
		}
		m.Delivered[i] |= 1 << uint(e.Pid)
		if popcount(m.Delivered[i]) == m.N {
			m.Ph++
			m.ReadyVia++
			return Result{Exp: ExpAccept, Completed: true}
		}
		return Result{Exp: ExpAccept}
	case PhReady:
		if e.Kind == EvStart {
			if e.Pid < 0 {
				return Result{Exp: ExpReject, Why: "negative initiator id"}
			}
			if !m.known(e.Pid) {
				return Result{Exp: ExpEither} // generator does not produce this
			}
			if e.Empty {
				return Result{Exp: ExpReject, Why: "empty batch"}
			}
			if e.Late {
				// the product never expires signing batches on message
				// timestamps in a way the statement fixes
				return Result{Exp: ExpEither}
			}
			m.Ph = PhSigning
			m.Batches++
			m.Conf, m.Failed = 0, 0
			m.LazyCancelled = false
			return Result{Exp: ExpAccept}
		}
		return Result{Exp: ExpReject, Why: "no batch open"}
	case PhSigning:
		switch e.Kind {
		case EvPartial:
			if !m.known(e.Pid) {
				return Result{Exp: ExpReject, Why: "unknown participant"}
			}
			if e.Batch != 0 {
				return Result{Exp: ExpReject, Why: "contribution made for another batch"}
			}
			if e.Empty {
				return Result{Exp: ExpReject, Why: "empty contribution"}
			}
			if (m.Conf|m.Failed)&(1<<uint(e.Pid)) != 0 {
				return Result{Exp: ExpReject, Why: "participant counted twice"}
			}
			// a late time stamp is nothing special here: the statement knows no
			// deadline for contributions to a batch
			if e.Var != 0 {
				// junk partial signature: whether it is refused on arrival or
				// when reconstruction is attempted is not fixed; the sampled
				// histories keep junk out of the counting oracle
				return Result{Exp: ExpEither}
			}
			m.Conf |= 1 << uint(e.Pid)
			if popcount(m.Conf) == m.T {
				m.Ph = PhReady
				return Result{Exp: ExpAccept, Collected: true}
			}
			return Result{Exp: ExpAccept}
		case EvErrSign:
			if !m.known(e.Pid) {
				return Result{Exp: ExpReject, Why: "unknown participant"}
			}
			if e.Batch > 0 {
				return Result{Exp: ExpReject, Why: "failure report made for another batch"}
			}
			if (m.Conf|m.Failed)&(1<<uint(e.Pid)) != 0 {
				return Result{Exp: ExpReject, Why: "participant already answered"}
			}
			m.Failed |= 1 << uint(e.Pid)
			if popcount(m.Failed) > m.N-m.T {
				m.Ph = PhReady
				m.LazyCancelled = true
				return Result{Exp: ExpAccept, Cancelled: true}
			}
			return Result{Exp: ExpAccept}
		}
		return Result{Exp: ExpReject, Why: "not acceptable while a batch is open"}
	}
	return Result{Exp: ExpEither}
}

// Abstract is the abstract state used as the coverage measure.
func (m *Model) Abstract() string {
	switch m.Ph {
	case PhInvited, PhCommits, PhDeals, PhResponses, PhKeys:
		return fmt.Sprintf("n%d/t%d/%s/%d", m.N, m.T, m.Ph, popcount(m.Delivered[phaseIdx(m.Ph)]))
	case PhSigning:
		return fmt.Sprintf("n%d/t%d/signing/c%d/f%d", m.N, m.T, popcount(m.Conf), popcount(m.Failed))
	case PhReady:
		b := m.Batches
		if b > 2 {
			b = 2
		}
		return fmt.Sprintf("n%d/t%d/ready/b%d/lazy%v", m.N, m.T, b, m.LazyCancelled)
	}
	return fmt.Sprintf("n%d/t%d/%s", m.N, m.T, m.Ph)
}

// ReachableAbstract enumerates the model's own reachable abstract states by
// BFS over the model (the denominator of the coverage report, not a verdict).
func ReachableAbstract(n, t int) map[string]bool {
	seen := map[string]bool{}
	visited := map[Model]bool{}
	q := []*Model{NewModel(n, t)}
	var alphabet []Ev
	for k := EvKind(0); k < evKinds; k++ {
		for pid := 0; pid < n; pid++ {
			alphabet = append(alphabet, Ev{Kind: k, Pid: pid})
		}
	}
	alphabet = append(alphabet, Ev{Kind: EvKey, Pid: 0, Var: 1})
	for len(q) > 0 {
		m := q[0]
		q = q[1:]
		cm := *m
		cm.ReadyVia = 0
		if cm.Batches > 2 {
			cm.Batches = 2
		}
		if visited[cm] {
			continue
		}
		visited[cm] = true
		seen[m.Abstract()] = true
		for _, e := range alphabet {
			c := m.Clone()
			if c.Batches > 2 {
				c.Batches = 2
			}
			r := c.Step(e)
			if r.Exp == ExpAccept {
				q = append(q, c)
			}
		}
	}
	return seen
}
