package round

import (
	"bytes"
	"encoding/json"
	"fmt"
	"os"
	"runtime/debug"
	"sort"
	"strings"
	"testing"
	"testing/synctest"
	"time"

	"github.com/herumi/bls-eth-go-binary/bls"

	"github.com/lidofinance/dc4bc/client/types"
	fsmtypes "github.com/lidofinance/dc4bc/fsm/types"
	"github.com/lidofinance/dc4bc/storage"

	"dst/sim"
)

var blsReady bool

func verifyETH(pub48, msg, sig96 []byte) error {
	if !blsReady {
		if err := bls.Init(bls.BLS12_381); err != nil {
			panic(err)
		}
		if err := bls.SetETHmode(bls.EthModeDraft07); err != nil {
			panic(err)
		}
		blsReady = true
	}
	var pk bls.PublicKey
	var sg bls.Sign
	if err := pk.Deserialize(pub48); err != nil {
		return err
	}
	if err := sg.Deserialize(sig96); err != nil {
		return err
	}
	if !sg.VerifyByte(&pk, msg) {
		return fmt.Errorf("does not verify")
	}
	return nil
}

func scratch() string {
	if st, err := os.Stat("/dev/shm"); err == nil && st.IsDir() {
		return "/dev/shm"
	}
	return os.TempDir()
}

// genEvent draws the next history event: about 60% "what the happy path needs
// next", otherwise anything from the public alphabet.
func genEvent(tp *sim.Tape, m *Model, f *Fixture, focus string) Ev {
	n := m.N
	pidAny := func() int {
		switch tp.Choose(8, "pidClass") {
		case 0:
			return n + tp.Choose(3, "unk") // unknown id
		case 1:
			return -1 - tp.Choose(2, "neg")
		default:
			return tp.Choose(n, "pid")
		}
	}
	missing := func(mask uint32) int {
		var c []int
		for i := 0; i < n; i++ {
			if mask&(1<<uint(i)) == 0 {
				c = append(c, i)
			}
		}
		if len(c) == 0 {
			return tp.Choose(n, "pid")
		}
		return c[tp.Choose(len(c), "missing")]
	}
	happy := tp.Choose(10, "happy?") < 6
	if focus == "signing" && m.Ph < PhReady {
		happy = tp.Choose(20, "happy?") < 19 // get through key generation quickly
	}
	if happy {
		switch m.Ph {
		case PhIdle:
			return Ev{Kind: EvInit}
		case PhInvited:
			return Ev{Kind: EvConfirm, Pid: missing(m.Delivered[0])}
		case PhCommits, PhDeals, PhResponses, PhKeys:
			e := Ev{Kind: phaseEv[m.Ph], Pid: missing(m.Delivered[phaseIdx(m.Ph)])}
			if m.Ph == PhKeys && m.KeyVar > 0 {
				e.Var = m.KeyVar
			}
			if focus != "signing" && m.Ph == PhKeys && m.KeyVar >= 0 && tp.Choose(6, "deviantKey?") == 0 {
				// an awaited participant announces something else than the others did
				// (another key, another polynomial, or both)
				e.Var = (m.KeyVar + 1 + tp.Choose(3, "deviantVar")) % 4
			}
			return e
		case PhReady:
			return Ev{Kind: EvStart, Pid: tp.Choose(n, "pid")}
		case PhSigning:
			late := tp.Choose(8, "lateAnswer?") == 0 // an answer that arrives more than a week later
			if tp.Choose(5, "errOrSig") == 0 {
				return Ev{Kind: EvErrSign, Pid: missing(m.Conf | m.Failed), Var: tp.Choose(8, "errText"), Late: late}
			}
			return Ev{Kind: EvPartial, Pid: missing(m.Conf | m.Failed), Late: late}
		}
	}
	// anything
	var kinds []EvKind
	if focus == "signing" && m.Ph >= PhReady {
		kinds = []EvKind{EvStart, EvPartial, EvPartial, EvPartial, EvErrSign, EvErrSign, EvKey, EvCommit, EvInit}
	} else {
		for k := EvKind(0); k < EvRecon; k++ {
			kinds = append(kinds, k)
		}
	}
	e := Ev{Kind: kinds[tp.Choose(len(kinds), "kind")], Pid: pidAny()}
	switch e.Kind {
	case EvInit:
		if tp.Choose(3, "badInit?") == 0 {
			e.BadInit = 1 + tp.Choose(3, "badInit")
		}
	case EvKey:
		if tp.Choose(3, "keyVar?") == 0 {
			e.Var = 1 + tp.Choose(3, "keyVar")
		}
	case EvErrCommit, EvErrDeal, EvErrResponse, EvErrKey:
		e.Var = tp.Choose(8, "errText")
	case EvPartial, EvErrSign:
		if e.Kind == EvErrSign {
			e.Var = tp.Choose(8, "errText")
		}
		if e.Kind == EvPartial {
			e.Batch = []int{0, 0, 1, 1, 2}[tp.Choose(5, "batchRef")]
		}
		if e.Kind == EvErrSign {
			// current batch, an older one, one never proposed, or no batch id at all
			e.Batch = []int{0, 0, 1, 1, 2, -1}[tp.Choose(6, "errBatchRef")]
		}
	}
	if e.Kind != EvInit && e.Kind != EvStart && tp.Choose(8, "late?") == 0 {
		e.Late = true
	}
	if tp.Choose(10, "empty?") == 0 && (e.Kind == EvCommit || e.Kind == EvDeal || e.Kind == EvResponse || e.Kind == EvKey || e.Kind == EvPartial || e.Kind == EvStart) {
		e.Empty = true
	}
	return e
}

type runOut struct {
	viol       *sim.Violation
	nontrivial bool
	sample     interface{}
	abstract   map[string]bool
	stats      *sim.Stats
	steps      int
	log        *sim.EventLog
}

func fail(o *runOut, prop, sig, detail string) {
	if o.viol == nil {
		o.viol = &sim.Violation{Property: prop, Signature: sig, Detail: detail}
		o.log.Add("VIOLATION %s %s", prop, sig)
	}
}

// runNodeHistory is layer (2): one real hot node fed a generated history.
// prop selects the judging oracle: C05 (phases, unanimity, abort for good,
// rejected = no change) or C06 (reconstruction exactly at t distinct
// contributions to the current batch; cancel at > n-t failures; back to idle).
func runNodeHistory(tp *sim.Tape, tier, prop string, o *runOut) {
	maxN := 4
	if tier == "thorough" {
		maxN = 7
	}
	n := 2 + tp.Choose(maxN-1, "n")
	t := 2 + tp.Choose(n-1, "t")
	dir, err := os.MkdirTemp(scratch(), "dc4bc-round-")
	if err != nil {
		panic(err)
	}
	defer os.RemoveAll(dir)
	nd, err := NewNode(dir+"/state", "part_0", true)
	if err != nil {
		panic(err)
	}
	defer func() { nd.Close(); time.Sleep(3 * time.Second) }()
	base := time.Now()
	endOfTime := false
	if tp.Choose(12, "endOfTime?") == 0 {
		// see twin.go: a round dated at the end of representable time. The proposal
		// then sets a deadline that cannot be written down
		endOfTime = true
		// (only the proposal: the node stamps the start of key generation with its own
		// clock, which this engine does not own, so later overflows belong to C19's twin)
		base = time.Date(9999, 12, 27, 12, 0, 0, 0, time.UTC)
		o.stats.Fault("round-dated-at-the-end-of-representable-time")
	}
	f := NewFixture(n, t, tp.Seed, base)
	m := NewModel(n, t)
	focus := "dkg"
	if prop == "C06" {
		focus = "signing"
	}
	length := 10 + tp.Choose(70, "len")
	var hist []string
	judged := 0
	collectedSeen := 0
	desync := false
	var openMsg *storage.Message
	for i := 0; i < length && o.viol == nil; i++ {
		e := genEvent(tp, m, f, focus)
		msg := f.Message(e, i)
		hist = append(hist, e.String())
		if prop == "C05" && openMsg != nil && !desync && tp.Choose(12, "lookAlikeRound?") == 0 {
			// the round's own opening proposal arrives once more under an identifier that differs
			// from the round's by white space or letter case only (identifiers are free text of an
			// unauthenticated message): that is a message of another round, and whatever becomes of
			// it, the round itself - cancelled, under way or finished - must not change
			padKind := tp.Choose(5, "padKind")
			x := *openMsg
			x.DkgRoundID = []string{f.Round + " ", " " + f.Round, f.Round + "\n", "\t" + f.Round + " ", strings.ToUpper(f.Round)}[padKind]
			x.ID = fmt.Sprintf("h-%d-lookalike", i)
			b0 := nd.RoundDump(f.Round)
			perr := nd.Svc.ProcessMessage(x)
			o.steps++
			o.stats.Fault("opening-proposal-under-a-look-alike-round-id")
			o.log.Add("opening proposal under look-alike id %q -> err=%v", x.DkgRoundID, perr != nil)
			if b1 := nd.RoundDump(f.Round); normDump(b0) != normDump(b1) {
				fail(o, prop, fmt.Sprintf("round-changed-by-message-under-a-look-alike-id/%s/in-%s", []string{"trailing-space", "leading-space", "trailing-newline", "tab-and-space", "upper-case"}[padKind], m.Ph),
					fmt.Sprintf("an opening proposal under the id %q changed the persisted round %q (state now %s); history: %s", x.DkgRoundID, f.Round, nd.RoundState(f.Round), strings.Join(hist, " ")))
				break
			}
		}
		before := nd.RoundDump(f.Round)
		beforeSnap := nd.Snapshot()
		beforePh := m.Ph
		lazyBefore := m.LazyCancelled && m.Ph == PhReady
		nLog := len(nd.Log.Lines)
		nSent := len(nd.Board.Sent)
		nOps := len(pending(nd))
		saved := m.Clone()
		mPrev := *m
		r := m.Step(e)
		if e.Kind == EvInit && r.Exp == ExpAccept && openMsg == nil {
			c := msg
			openMsg = &c
		}
		if m.KeyVar >= 0 {
			f.UseKeyVariant(m.KeyVar)
		}
		if e.Kind == EvStart && r.Exp == ExpAccept {
			f.AcceptStart()
		}
		// fault: the board is unreachable at the very moment the node has to publish
		// what it reconstructed from the t-th contribution, and another participant's
		// contribution is still to come. The node may fail on this message, but it must
		// keep nothing of it: seen from the round the message was never processed (the
		// model is rolled back), and the next contribution completes the batch.
		if prop == "C06" && e.Kind == EvPartial && r.Exp == ExpAccept && r.Collected && popcount(m.Conf|m.Failed) < n && !desync && tp.Bool(1, 4, "boardDown") {
			*m = *saved
			nd.Board.FailNext = true
			perr := nd.Svc.ProcessMessage(msg)
			fired := !nd.Board.FailNext
			nd.Board.FailNext = false
			o.steps++
			st := nd.RoundState(f.Round)
			o.log.Add("%s [board unreachable at publication] -> %s err=%v", e, st, perr != nil)
			hist[len(hist)-1] += "[board-down]"
			if fired {
				o.stats.Fault("board-unreachable-at-publication")
				if _, known := AbstractPhase(st); !known {
					fail(o, prop, "transient-state-persisted/"+st, fmt.Sprintf("the board was unreachable when the node had to publish the signatures reconstructed from %s; it persisted the hand-over state %s, which nothing leads out of; history: %s", e, st, strings.Join(hist, " ")))
					break
				}
				if perr == nil {
					fail(o, prop, "publication-failure-swallowed", fmt.Sprintf("the board refused the reconstructed signatures of %s but the message was reported as processed; history: %s", e, strings.Join(hist, " ")))
					break
				}
				if after := nd.RoundDump(f.Round); normDump(before) != normDump(after) {
					fail(o, prop, "failed-publication-left-traces", fmt.Sprintf("processing %s failed at the publication step but the persisted round changed (state now %s); history: %s", e, st, strings.Join(hist, " ")))
					break
				}
				continue
			}
			// the node did not try to publish: judge the step as usual
			hist[len(hist)-1] = e.String()
			fail(o, prop, "reconstruction-false-expected-true", fmt.Sprintf("after %s: t=%d distinct contributions, but the node did not publish a reconstruction; history: %s", e, t, strings.Join(hist, " ")))
			break
		}
		perr := nd.Svc.ProcessMessage(msg)
		o.steps++
		after := nd.RoundDump(f.Round)
		st := nd.RoundState(f.Round)
		ph, known := AbstractPhase(st)
		o.log.Add("%s -> %s err=%v", e, st, perr != nil)
		if !known {
			fail(o, prop, "transient-state-persisted/"+st, fmt.Sprintf("after %s the node persisted the hand-over state %s", e, st))
			break
		}
		collectedNow := false
		for _, l := range nd.Log.Lines[nLog:] {
			if strings.Contains(l, "Collected enough partial signatures") {
				collectedNow = true
			}
		}
		if desync {
			continue
		}
		// "the round returns to idle": once any further message of the round
		// was processed after a batch was cancelled, the persisted round must
		// no longer be in the cancelled-batch state
		if prop == "C06" && lazyBefore && strings.Contains(st, "cancelled") {
			fail(o, "C06", "cancelled-batch-state-survives-next-message/"+e.Kind.String(),
				fmt.Sprintf("a batch was cancelled, then %s was processed (err=%v), and the persisted round is still %s instead of idle; history: %s", e, perr != nil, st, strings.Join(hist, " ")))
			break
		}
		if lazyBefore {
			o.stats.Probe("message-after-cancelled-batch")
		}
		switch r.Exp {
		case ExpReject:
			judged++
			if normDump(before) != normDump(after) && !(before == "" && ph == PhIdle) {
				fail(o, prop, fmt.Sprintf("rejected-event-changed-round/%s/in-%s", e.Kind, beforePh),
					fmt.Sprintf("event %s is not acceptable in phase %s (%s) but the persisted round changed (state now %s); history: %s", e, beforePh, r.Why, st, strings.Join(hist, " ")))
			}
			if prop == "C06" && (collectedNow || len(nd.Board.Sent) != nSent) {
				fail(o, prop, fmt.Sprintf("reconstruction-on-rejected-event/%s", e.Kind), fmt.Sprintf("event %s (%s) started a reconstruction; history: %s", e, r.Why, strings.Join(hist, " ")))
			}
			_ = beforeSnap
		case ExpAccept:
			judged++
			if endOfTime && perr != nil {
				// a step whose deadline falls behind the last representable year may be
				// refused (the statement does not say); refused, it must be a no-op
				if normDump(before) != normDump(after) {
					fail(o, prop, fmt.Sprintf("rejected-event-changed-round/%s/in-%s", e.Kind, beforePh),
						fmt.Sprintf("event %s dated at the end of representable time was refused (%v) but the persisted round changed (state now %s); history: %s", e, perr, st, strings.Join(hist, " ")))
					break
				}
				*m = mPrev
				o.stats.Probe("refused-at-the-end-of-representable-time")
				continue
			}
			if ph != m.Ph {
				sig := fmt.Sprintf("phase-mismatch/%s/model-%s/impl-%s", e.Kind, m.Ph, ph)
				if m.Ph == PhCancelled {
					sig = fmt.Sprintf("not-cancelled/%s/%s", e.Kind, strings.ReplaceAll(r.Why, " ", "-"))
				}
				fail(o, prop, sig, fmt.Sprintf("after %s (%s) the model is in phase %s, the node in %s (%s), err=%v; n=%d t=%d; history: %s", e, r.Why, m.Ph, ph, st, perr, n, t, strings.Join(hist, " ")))
				break
			}
			if perr != nil && !r.Collected {
				fail(o, prop, fmt.Sprintf("acceptable-event-rejected/%s/in-%s", e.Kind, beforePh), fmt.Sprintf("%s in phase %s: %v; history: %s", e, beforePh, perr, strings.Join(hist, " ")))
				break
			}
			if prop == "C06" || prop == "C05" {
				if r.Collected != collectedNow {
					fail(o, "C06", fmt.Sprintf("reconstruction-%v-expected-%v", collectedNow, r.Collected),
						fmt.Sprintf("after %s: %d distinct contributions to the current batch, t=%d, n=%d; reconstruction started=%v; history: %s", e, popcount(m.Conf), t, n, collectedNow, strings.Join(hist, " ")))
					break
				}
				if r.Collected {
					collectedSeen++
					checkBroadcast(o, prop, f, nd.Board.Sent[nSent:], hist)
				}
			}
			// a newly created operation only where the phase awaits the airgapped machine
			_ = nOps
		case ExpEither:
			// the statement is silent: follow the implementation where it matters
			if ph == PhCancelled && m.Ph != PhCancelled {
				m.Ph = PhCancelled
			} else if ph != m.Ph {
				desync = true
				o.stats.Probe("desync-after-either")
			}
		}
		o.abstract[m.Abstract()] = true
	}
	// once the history is over: a round that is ready (incl. after a cancelled
	// batch) must accept the next proposal through the API
	if o.viol == nil && !desync && m.Ph == PhReady && prop == "C06" {
		nSent := len(nd.Board.Sent)
		err := nd.Svc.ProposeSignMessages(f.ProposeDTO())
		if err != nil || len(nd.Board.Sent) != nSent+1 {
			fail(o, "C06", fmt.Sprintf("next-proposal-refused/lazy-%v", m.LazyCancelled),
				fmt.Sprintf("history is over, the round has no open batch (last batch cancelled=%v) but ProposeSignMessages fails: %v (state %s); history: %s", m.LazyCancelled, err, nd.RoundState(f.Round), strings.Join(hist, " ")))
		} else {
			o.stats.Probe("next-proposal-accepted")
			if m.LazyCancelled {
				o.stats.Probe("next-proposal-after-cancelled-batch")
			}
			// and the node itself accepts it
			if perr := nd.Svc.ProcessMessage(nd.Board.Sent[nSent]); perr != nil {
				fail(o, "C06", "own-proposal-rejected", fmt.Sprintf("%v; history: %s", perr, strings.Join(hist, " ")))
			}
		}
	}
	o.stats.ProbeN("events-judged", judged)
	o.stats.ProbeN("reconstructions", collectedSeen)
	if m.Ph == PhCancelled {
		o.stats.Probe("ended-cancelled")
	}
	if m.ReadyVia == 5 {
		o.stats.Probe("reached-ready")
	}
	o.nontrivial = judged >= 5 && (prop != "C06" || m.Batches > 0)
	if len(hist) > 40 {
		hist = append(hist[:40], "…")
	}
	o.sample = map[string]interface{}{"n": n, "t": t, "history": strings.Join(hist, " "), "final_phase": m.Ph.String(), "batches": m.Batches}
}

// normDump maps the product's "batch cancelled, restart pending" bookkeeping
// states to idle: the restart is performed lazily when the next message of
// the round arrives (even a rejected one), which is not a change of the round
// in the sense of the properties (no batch is open before or after).
func normDump(d string) string {
	for _, s := range []string{"state_signing_partial_signs_await_cancelled_by_error", "state_signing_partial_signs_await_cancelled_by_timeout"} {
		d = strings.Replace(d, `"State":"`+s+`"`, `"State":"stage_signing_idle"`, 1)
	}
	return d
}

func pending(nd *Node) []*types.Operation {
	m, _ := nd.Ops.GetOperations()
	var out []*types.Operation
	for _, o := range m {
		out = append(out, o)
	}
	sort.Slice(out, func(i, j int) bool { return out[i].ID < out[j].ID })
	return out
}

// checkBroadcast: the reconstruction that just started must have produced one
// valid signature per message of the current batch.
func checkBroadcast(o *runOut, prop string, f *Fixture, sent []storage.Message, hist []string) {
	var recon []fsmtypes.ReconstructedSignature
	for _, m := range sent {
		if m.Event == string(types.SignatureReconstructed) {
			_ = json.Unmarshal(m.Data, &recon)
		}
	}
	bid, tasks := f.batchRef(0)
	if len(recon) != len(tasks) {
		fail(o, "C06", "reconstruction-incomplete", fmt.Sprintf("batch %s has %d messages, %d signatures broadcast; history: %s", bid, len(tasks), len(recon), strings.Join(hist, " ")))
		return
	}
	for _, tk := range tasks {
		ok := false
		for _, rs := range recon {
			if rs.MessageID == tk.MessageID && rs.BatchID == bid && bytes.Equal(rs.SrcPayload, tk.Payload) {
				if err := verifyETH(f.SignKey, tk.Payload, rs.Signature); err == nil {
					ok = true
				}
			}
		}
		if !ok {
			fail(o, "C06", "reconstruction-wrong-contributions", fmt.Sprintf("no valid signature for message %s of the current batch %s; history: %s", tk.MessageID, bid, strings.Join(hist, " ")))
			return
		}
	}
}

// RunOne executes one run inside a synctest bubble.
func RunOne(t *testing.T, scenario, tier string, tape *sim.Tape, keepAll bool) (res sim.RunResult) {
	res.Seed = tape.Seed
	o := &runOut{abstract: map[string]bool{}, stats: sim.NewStats(), log: sim.NewEventLog()}
	o.log.All = keepAll
	func() {
		defer func() {
			if r := recover(); r != nil {
				res.Inconclusive = fmt.Sprintf("harness panic: %v\n%s", r, debug.Stack())
			}
		}()
		sc := scenarios[scenario]
		if sc == nil {
			panic("unknown scenario " + scenario)
		}
		if sc.bubble {
			synctest.Test(t, func(t *testing.T) { sc.run(tape, tier, o) })
		} else {
			sc.run(tape, tier, o)
		}
	}()
	res.Violation = o.viol
	res.Stats = o.stats
	res.Fingerprint = o.log.Fingerprint()
	res.DistinctKey = res.Fingerprint
	res.Steps = o.steps
	res.NonTrivial = o.nontrivial
	res.Sample = o.sample
	res.Trace = o.log.Tail()
	if keepAll {
		res.Trace = o.log.Lines()
	}
	for k := range o.abstract {
		res.Abstract = append(res.Abstract, k)
	}
	res.Tape = append([]uint32(nil), tape.Out...)
	res.TapeLen = len(tape.Out)
	return res
}

type scenario struct {
	bubble bool
	run    func(tp *sim.Tape, tier string, o *runOut)
}

var scenarios = map[string]*scenario{
	"C05-node": {bubble: true, run: func(tp *sim.Tape, tier string, o *runOut) { runNodeHistory(tp, tier, "C05", o) }},
	"C06-node": {bubble: true, run: func(tp *sim.Tape, tier string, o *runOut) { runNodeHistory(tp, tier, "C06", o) }},
}
