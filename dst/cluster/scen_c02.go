package cluster

import (
	"bytes"
	"encoding/json"
	"fmt"
	"strings"

	"github.com/corestario/kyber"
	"github.com/corestario/kyber/pairing"
	"github.com/corestario/kyber/pairing/bls12381"
	"github.com/corestario/kyber/share"
	"github.com/corestario/kyber/sign/tbls"

	"github.com/lidofinance/dc4bc/client/types"
	"github.com/lidofinance/dc4bc/dkg"
	dpf "github.com/lidofinance/dc4bc/fsm/state_machines/dkg_proposal_fsm"
	"github.com/lidofinance/dc4bc/fsm/types/requests"
)

func polyCommits(p *share.PubPoly) [][]byte {
	_, cs := p.Info()
	out := make([][]byte, len(cs))
	for i, c := range cs {
		out[i], _ = c.MarshalBinary()
	}
	return out
}

func sameCommits(a, b [][]byte) bool {
	if len(a) != len(b) {
		return false
	}
	for i := range a {
		if !bytes.Equal(a[i], b[i]) {
			return false
		}
	}
	return true
}

// checkKeyMaterial is the C02 oracle, evaluated once a round is ready.
func checkKeyMaterial(w *World, round string, members []int, t int, prop string) (checked bool) {
	suite := bls12381.NewBLS12381Suite(nil).(pairing.Suite)
	var ref [][]byte
	var shares []*share.PriShare
	var refPoly *share.PubPoly
	for _, i := range members {
		kr := w.Airs[i].Keyring(round)
		if kr == nil {
			w.Fail(prop, "machine-without-keyring", fmt.Sprintf("round is signing-ready on a node but airgapped machine %d holds no keyring for it", i))
			return true
		}
		cs := polyCommits(kr.PubPoly)
		if len(cs) != t {
			w.Fail(prop, "polynomial-degree-wrong", fmt.Sprintf("machine %d: public polynomial has %d coefficients, threshold is %d", i, len(cs), t))
			return true
		}
		if ref == nil {
			ref, refPoly = cs, kr.PubPoly
		} else if !sameCommits(ref, cs) {
			w.Fail(prop, "machines-hold-different-polynomials", fmt.Sprintf("machine %d and machine %d hold different public polynomials", members[0], i))
			return true
		}
		// the private share lies on the polynomial
		pub := suite.G1().Point().Mul(kr.Share.V, nil)
		if !pub.Equal(kr.PubPoly.Eval(kr.Share.I).V) {
			w.Fail(prop, "share-not-on-polynomial", fmt.Sprintf("machine %d: share %d is not the evaluation of the public polynomial", i, kr.Share.I))
			return true
		}
		shares = append(shares, kr.Share)
	}
	seenIdx := map[int]bool{}
	for _, s := range shares {
		if seenIdx[s.I] {
			w.Fail(prop, "duplicate-share-index", fmt.Sprintf("two machines hold share index %d", s.I))
			return true
		}
		seenIdx[s.I] = true
	}
	// what the hot nodes recorded and retain
	for _, i := range members {
		d := w.Nodes[i].Dump(round)
		if d == nil || d.Payload.DKGProposalPayload == nil {
			continue
		}
		if string(d.State) != StIdle && !IsSigningState(string(d.State)) {
			continue
		}
		for pid, p := range d.Payload.DKGProposalPayload.Quorum {
			if !bytes.Equal(p.DkgMasterKey, ref[0]) {
				w.Fail(prop, "announced-key-differs-from-polynomial", fmt.Sprintf("node %d recorded for participant %d a group key that is not the polynomial's constant term", i, pid))
				return true
			}
		}
		kr, err := dkg.LoadPubPolyBLSKeyringFromBytes(suite.(interface {
			kyber.Group
			kyber.HashFactory
			kyber.XOFFactory
			kyber.Random
		}), d.Payload.DKGProposalPayload.PubPolyBz)
		if err != nil {
			w.Fail(prop, "retained-polynomial-unreadable", fmt.Sprintf("node %d is signing-ready but its retained polynomial does not decode: %v", i, err))
			return true
		}
		if !sameCommits(ref, polyCommits(kr.PubPoly)) {
			w.Fail(prop, "retained-polynomial-differs", fmt.Sprintf("node %d is signing-ready but retains a polynomial different from the one the machines hold", i))
			return true
		}
		if d.Payload.Threshold != t {
			w.Fail(prop, "threshold-differs", fmt.Sprintf("node %d records threshold %d, proposal said %d", i, d.Payload.Threshold, t))
			return true
		}
	}
	// any t shares sign consistently; t-1 cannot
	msg := []byte(fmt.Sprintf("c02-probe-%x", w.Tape.Choose(1<<20, "probeMsg")))
	perm := permOf(w, len(shares))
	var parts [][]byte
	for _, pi := range perm {
		s, err := tbls.Sign(suite, shares[pi], msg)
		if err != nil {
			w.Fail(prop, "share-cannot-sign", err.Error())
			return true
		}
		parts = append(parts, s)
	}
	gk := ref[0]
	full, err := tbls.Recover(suite, refPoly, msg, parts[:t], t, len(shares))
	if err != nil {
		w.Fail(prop, "t-shares-do-not-combine", err.Error())
		return true
	}
	if err := VerifyETH(gk, msg, full); err != nil {
		w.Fail(prop, "t-shares-invalid-signature", err.Error())
		return true
	}
	if len(shares) > t {
		full2, err := tbls.Recover(suite, refPoly, msg, parts[len(parts)-t:], t, len(shares))
		if err != nil || !bytes.Equal(full, full2) {
			w.Fail(prop, "t-subsets-disagree", fmt.Sprintf("two t-subsets of shares give different signatures (err=%v)", err))
			return true
		}
	}
	if t-1 >= 1 {
		under, err := tbls.Recover(suite, refPoly, msg, parts[:t-1], t-1, len(shares))
		if err == nil && VerifyETH(gk, msg, under) == nil {
			w.Fail(prop, "fewer-than-t-shares-suffice", fmt.Sprintf("%d shares combined into a valid signature, threshold is %d", t-1, t))
			return true
		}
	}
	return true
}

func IsSigningState(s string) bool {
	return len(s) > 14 && (s[:14] == "state_signing_" || s == StIdle)
}

func runC02(w *World, tier string) (bool, interface{}) {
	n, t := pickNT(w, tier)
	c := NewCluster(w, n)
	c.L.Faults.ShortReads = w.Tape.Bool(1, 2, "shortReads")
	c.L.Faults.PermuteResults = true
	c.L.Faults.BoardDownAtSubmit = w.Tape.Bool(1, 2, "boardOutages") // single submissions refused by the board; operators submit again
	members := AllMembers(n)
	byz := -1
	mode := 0
	if w.Tape.Bool(1, 2, "byzantine") {
		byz = w.Tape.Choose(n, "byz")
		mode = w.Tape.Choose(7, "byzMode")
		w.Stats.Fault("byz-key-announcement")
		if w.Tape.Bool(1, 2, "byzAnnouncesLast") {
			// the deviating announcement is held back until everybody else's is on the board
			c.Ops[byz].Filter = func(op *types.Operation) bool {
				if string(op.Type) != string(dpf.StateDkgMasterKeyAwaitConfirmations) {
					return true
				}
				cnt := 0
				for _, m := range w.Board.Msgs {
					if m.DkgRoundID == op.DKGIdentifier && m.Event == string(dpf.EventDKGMasterKeyConfirmationReceived) {
						cnt++
					}
				}
				return cnt >= n-1
			}
		}
		c.Ops[byz].Tamper = func(op *types.Operation, result []byte) []byte {
			if string(op.Type) != string(dpf.StateDkgMasterKeyAwaitConfirmations) {
				return result
			}
			var ro types.Operation
			if json.Unmarshal(result, &ro) != nil || len(ro.ResultMsgs) != 1 {
				return result
			}
			var req requests.DKGProposalMasterKeyConfirmationRequest
			if json.Unmarshal(ro.ResultMsgs[0].Data, &req) != nil || len(req.PubPolyBz) == 0 {
				return result
			}
			var pj struct {
				Commitments [][]byte `json:"commitments"`
				Share       []byte   `json:"share"`
			}
			if json.Unmarshal(req.PubPolyBz, &pj) != nil || len(pj.Commitments) < 2 {
				return result
			}
			switch mode {
			case 6: // the same polynomial text with the case of one base64 letter changed
				bz := append([]byte(nil), req.PubPolyBz...)
				var letters []int
				for i, ch := range bz {
					if (ch >= 'a' && ch <= 'z') || (ch >= 'A' && ch <= 'Z') {
						// only inside the quoted commitment strings, not in the JSON keys
						if i > 16 {
							letters = append(letters, i)
						}
					}
				}
				if len(letters) == 0 {
					return result
				}
				bz[letters[w.Tape.Choose(len(letters), "caseFlipAt")]] ^= 0x20
				req.PubPolyBz = bz
			case 4: // same group key, no polynomial at all (as a pre-0.1.5 node would send)
				req.PubPolyBz = nil
			case 5:
				req.PubPolyBz = []byte{}
			case 0: // same group key, another polynomial (coefficient 1 replaced by a valid point)
				pj.Commitments[1] = pj.Commitments[0]
			case 1: // polynomial of another degree
				pj.Commitments = append(pj.Commitments, pj.Commitments[0])
			case 2: // garbage
				req.PubPolyBz = []byte("not a polynomial")
			case 3: // another group key as well
				pj.Commitments[0], pj.Commitments[1] = pj.Commitments[1], pj.Commitments[0]
				req.MasterKey = pj.Commitments[0]
			}
			if mode != 2 && mode < 4 {
				// modes 0, 1, 3 edited the decoded polynomial
				req.PubPolyBz, _ = json.Marshal(pj)
			}
			ro.ResultMsgs[0].Data, _ = json.Marshal(req)
			out, _ := json.Marshal(ro)
			w.Stats.Probe(fmt.Sprintf("byz-mode-%d-sent", mode))
			return out
		}
	}
	round, rep := c.StartDKG(w.Tape.Choose(n, "proposer"), t, members)
	if !rep.OK() {
		w.Fail("C02", "startdkg-rejected", rep.ErrMsg)
		return false, nil
	}
	// invariant: evaluated the moment any node becomes ready, and at the end
	checkedEarly := false
	c.L.RunUntil(func() bool {
		anyReady := false
		for _, i := range members {
			if w.Nodes[i].RoundState(round) == StIdle {
				anyReady = true
			}
		}
		if anyReady && !checkedEarly {
			checkedEarly = true
			w.Stats.Probe("checked-at-first-ready")
			checkKeyMaterial(w, round, members, t, "C02")
		}
		return c.AllInState(round, StIdle, members) || c.AnyCancelled(round, members)
	}, 400*n)
	c.L.Quiesce(10)
	nReady, nCanc := 0, 0
	for _, i := range members {
		st := w.Nodes[i].RoundState(round)
		if st == StIdle {
			nReady++
		} else if IsCancelled(st) {
			nCanc++
		}
	}
	checked := false
	if nReady > 0 && !w.Failed() {
		checked = checkKeyMaterial(w, round, members, t, "C02")
	}
	if byz >= 0 && !w.Failed() {
		if nReady > 0 && nCanc > 0 {
			w.Fail("C02", "nodes-split-ready-vs-cancelled", fmt.Sprintf("after a deviating key announcement %d nodes are ready and %d cancelled", nReady, nCanc))
		}
		if nCanc > 0 {
			w.Stats.Probe("byz-round-cancelled")
			checked = true
		} else if nReady > 0 {
			w.Stats.Probe("byz-round-ready-consistent")
		}
	}
	// a later key generation among some of the same participants, on the same machines:
	// the key material of the round finished first stays what it was (and what was announced)
	if byz < 0 && nReady == n && n >= 3 && !w.Failed() && w.Tape.Bool(1, 3, "laterRound") {
		sub := members[:n-1]
		t2 := t
		if t2 > len(sub) {
			t2 = len(sub)
		}
		w.Advance(2e9)
		round2, rep2 := "", &APIResult{Code: 200}
		if w.Tape.Bool(1, 2, "lookAlikeRoundId") {
			// ... under an id that differs from the finished round's by white space only
			round2 = c.StartDKGUnder(w.Tape.Choose(len(sub), "proposer2"), t2, sub, []string{round + " ", " " + round, round + "\n", "\t" + round + " "}[w.Tape.Choose(4, "lookAlikeId")])
			w.Stats.Fault("later-round-under-a-look-alike-id")
		} else {
			round2, rep2 = c.StartDKG(w.Tape.Choose(len(sub), "proposer2"), t2, sub)
		}
		if rep2.OK() && round2 != round {
			c.L.RunUntil(func() bool { return c.AllInState(round2, StIdle, sub) || c.AnyCancelled(round2, sub) }, 400*n)
			c.L.Quiesce(6)
			if c.AllInState(round2, StIdle, sub) && !w.Failed() {
				w.Stats.Fault("multi-round")
				if strings.TrimSpace(round2) == round {
					w.Stats.Probe("later-round-under-a-look-alike-id-completed")
				}
				checkKeyMaterial(w, round2, sub, t2, "C02")
				if !w.Failed() {
					checkKeyMaterial(w, round, members, t, "C02")
					w.Stats.Probe("earlier-round-rechecked-after-a-later-one")
				}
			}
		}
	}
	if byz < 0 && nReady != n && !w.Failed() {
		w.Stats.Probe("honest-dkg-incomplete")
	}
	w.Abstract[fmt.Sprintf("n%d-t%d-byz%v-mode%d", n, t, byz >= 0, mode)] = true
	return checked, map[string]interface{}{"n": n, "t": t, "byzantine": byz, "mode": mode, "ready": nReady, "cancelled": nCanc, "board_len": w.Board.Len()}
}

func init() {
	Register(&Scenario{Prop: "C02", Name: "C02", Run: runC02})
}
