package cluster

import (
	"crypto/sha256"
	"encoding/hex"
	"encoding/json"
	"fmt"
	"os"
	"path/filepath"
	"strings"
	"time"

	"github.com/lidofinance/dc4bc/client/types"
	spf "github.com/lidofinance/dc4bc/fsm/state_machines/signature_proposal_fsm"
	"github.com/lidofinance/dc4bc/fsm/types/requests"
)

// Action is one thing the scheduler can do next.
type Action struct {
	Name string
	Run  func()
}

// Actor contributes enabled actions.
type Actor interface {
	Actions(w *World) []Action
}

type ActorFunc func(w *World) []Action

func (f ActorFunc) Actions(w *World) []Action { return f(w) }

// Faults of the schedule kind that the main loop applies when enabled.
type SchedFaults struct {
	ShortReads     bool // a tick may see only part of the available messages
	PermuteResults bool // carrier permutes ResultMsgs (always sorted canonically first)
	// BoardDownAtSubmit: now and then the board is unreachable for exactly one
	// submission of a result (the node's Send fails); the operator submits the
	// file again later if the operation is still offered
	BoardDownAtSubmit bool
	// PartialPost: now and then the board goes away in the middle of a submission:
	// the first messages of the result are on the board, the node reports an
	// error, the operation stays offered and the operator submits the file again
	PartialPost bool
}

// Loop is the step-atomic scheduler loop.
type Loop struct {
	W      *World
	Actors []Actor
	Faults SchedFaults
	// Paused operators/pollers are not scheduled (slow participant / stalled node).
	PausedOp   map[int]bool
	PausedPoll map[int]bool
	// AfterStep, when set, runs after every scheduler action (crash
	// bookkeeping, restarts).
	AfterStep func()
	// OnInjectedConsumed, when set, makes the tick that consumes an
	// adversarial board entry consume exactly that entry, with byte-exact
	// snapshots of the node's state DB taken before and after.
	OnInjectedConsumed func(n *HotNode, off uint64, inj *Inject, before, after map[string][]byte, failed bool, panicked string)
}

func NewLoop(w *World) *Loop {
	return &Loop{W: w, PausedOp: map[int]bool{}, PausedPoll: map[int]bool{}}
}

func (l *Loop) pollAction(n *HotNode) Action {
	w := l.W
	return Action{Name: fmt.Sprintf("poll[%d]", n.Idx), Run: func() {
		inc := n.inc
		if inc == nil {
			return
		}
		n.Handle.ReadLimit = 0
		if l.Faults.ShortReads {
			avail := w.Board.Len() - int(n.Offset())
			if avail > 1 && w.Tape.Bool(1, 3, "short?") {
				n.Handle.ReadLimit = 1 + w.Tape.Choose(avail-1, "shortN")
			}
		}
		var inj *Inject
		var off uint64
		var before map[string][]byte
		nLog := 0
		if l.OnInjectedConsumed != nil {
			off = n.Offset()
			if inj = w.Board.Injected[off]; inj != nil {
				n.Handle.ReadLimit = 1
				before = n.Snapshot()
				nLog = len(inc.Logger.Lines)
			} else {
				// stop this tick right before the next adversarial entry, so
				// that the entry is consumed by a tick of its own
				for o := off + 1; o < uint64(w.Board.Len()); o++ {
					if w.Board.Injected[o] != nil {
						lim := int(o - off)
						if n.Handle.ReadLimit == 0 || n.Handle.ReadLimit > lim {
							n.Handle.ReadLimit = lim
						}
						break
					}
				}
			}
		}
		w.RunPollTick(inc.Poller)
		n.Handle.ReadLimit = 0
		if inj != nil {
			failed := false
			inc.Logger.mu.Lock()
			if nLog > len(inc.Logger.Lines) {
				nLog = 0
			}
			for _, ln := range inc.Logger.Lines[nLog:] {
				if strings.HasPrefix(ln, fmt.Sprintf("Failed to process message with offset %d", off)) {
					failed = true
				}
			}
			inc.Logger.mu.Unlock()
			pan := ""
			if inc.Poller.Done() {
				w.collectPanics(n)
				if len(n.Panics) > 0 {
					pan = n.Panics[len(n.Panics)-1]
				}
			}
			var after map[string][]byte
			if s, err := inc.real.SimSnapshot(); err == nil {
				after = s
			}
			inj.Seen[n.Idx] = true
			l.OnInjectedConsumed(n, off, inj, before, after, failed, pan)
		}
		if inc.Poller.Done() && n.inc == inc {
			// Poll returned or panicked: the daemon process is gone
			w.collectPanics(n)
			w.Log.Add("poller of %s ended", n.Name)
			n.PollerEnded++ // Poll() returned or panicked by itself: the daemon process exits
			w.closeDeadNode(n)
		}
	}}
}

// Enabled collects the currently enabled actions in a fixed order.
func (l *Loop) Enabled() []Action {
	w := l.W
	var acts []Action
	needTick := false
	for _, n := range w.Nodes {
		if n.inc == nil {
			continue
		}
		if n.inc.Poller.Parked() != nil {
			if !l.PausedPoll[n.Idx] {
				acts = append(acts, l.pollAction(n))
			}
		} else if !n.inc.Poller.Done() {
			needTick = true
		}
	}
	for _, a := range l.Actors {
		acts = append(acts, a.Actions(w)...)
	}
	if needTick {
		acts = append(acts, Action{Name: "tick", Run: func() { w.Advance(time.Second) }})
	}
	return acts
}

// Step performs one tape-chosen action; false if nothing is enabled.
func (l *Loop) Step() bool {
	acts := l.Enabled()
	if len(acts) == 0 {
		return false
	}
	i := l.W.Tape.Choose(len(acts), "act")
	l.W.Steps++
	l.W.Log.Add("step %s", acts[i].Name)
	acts[i].Run()
	if l.AfterStep != nil {
		l.AfterStep()
	}
	return true
}

// RunUntil steps until cond holds, nothing is enabled, a violation was
// recorded, or maxSteps were made. Returns whether cond holds.
func (l *Loop) RunUntil(cond func() bool, maxSteps int) bool {
	for i := 0; i < maxSteps; i++ {
		if cond() {
			return true
		}
		if l.W.Failed() {
			return false
		}
		if !l.Step() {
			// nothing enabled: let time pass once, then give up if still nothing
			l.W.Advance(time.Second)
			if l.AfterStep != nil {
				l.AfterStep()
			}
			if len(l.Enabled()) == 0 {
				return cond()
			}
		}
	}
	return cond()
}

// Quiesce runs every enabled action round-robin (no tape choices, no faults)
// until the board and every node's offset and pending-operation count stop
// changing for three full rounds, or the cap is hit.
func (l *Loop) Quiesce(maxRounds int) bool {
	w := l.W
	saveF := l.Faults
	l.Faults = SchedFaults{}
	defer func() { l.Faults = saveF }()
	stable := 0
	last := ""
	if maxRounds < 40 {
		// the phase ends by itself once nothing changes for three rounds; a
		// generous cap only matters when the random phase stopped far from the
		// end (step cap), where a tight cap would turn bad luck into a verdict
		maxRounds = 40
	}
	for r := 0; r < maxRounds; r++ {
		w.Advance(time.Second)
		for _, a := range l.Enabled() {
			if a.Name == "tick" {
				continue
			}
			w.Steps++
			w.Log.Add("q %s", a.Name)
			a.Run()
			if l.AfterStep != nil {
				l.AfterStep()
			}
			if w.Failed() {
				return false
			}
		}
		sig := fmt.Sprintf("%d", w.Board.Len())
		for _, n := range w.Nodes {
			sig += fmt.Sprintf("|%d:%d", n.Offset(), len(n.PendingOps()))
		}
		if sig == last {
			stable++
			if stable >= 3 {
				return true
			}
		} else {
			stable = 0
			last = sig
		}
	}
	return false
}

// ---- operator ---------------------------------------------------------------

// Operator plays the human of participant i: looks at the node's pending
// operations, carries one to the airgapped machine and the result back.
type Operator struct {
	L   *Loop
	Idx int
	// Filter, when set, restricts which pending operations the operator is
	// willing to handle now (slow participant: defers some).
	Filter func(op *types.Operation) bool
	// Tamper, when set, may alter the result operation before submission
	// (carrier faults); returns nil to drop it.
	Tamper func(op *types.Operation, result []byte) []byte
	// OnResult observes every (operation, result JSON, API reply).
	OnResult func(op *types.Operation, result []byte, rep *APIResult)
	// results the operator already carried back from the airgapped machine
	// (the file is still on the stick): resubmitted instead of re-processing
	// when the node asks for the same operation again (e.g. after a crash)
	results map[string][]byte
	// RetryRefused: when the machine answers with a failure report the operator
	// may feed the same file a second time and carry back the second answer
	RetryRefused bool
	// AlterOp, when set, rewrites the operation file on its way from the node
	// to the machine (C12: the timestamps a node with a stepping clock would
	// have written).
	AlterOp func(op *types.Operation, opJSON []byte) []byte
	// PreAir / PreSubmit let a scenario present extra (malformed) inputs right
	// before the genuine operation file / result is handed over.
	PreAir    func(op *types.Operation, opJSON []byte)
	PreSubmit func(op *types.Operation, body []byte)
	// Submit / Approve, when set, replace the plain API calls (observed submission).
	Submit  func(op *types.Operation, body []byte) *APIResult
	Approve func(op *types.Operation, body []byte) *APIResult
	// UseResultFiles: when the machine's result directory already holds the
	// result file of this operation (e.g. regenerated by the log replay after
	// a restart) the operator submits that file instead of feeding the
	// operation to the machine again.
	UseResultFiles bool
	// Refeed makes the operator process the operation on the airgapped
	// machine again even if a result file exists (C12, C15)
	Refeed bool
}

func (o *Operator) eligible(w *World) []*types.Operation {
	n := w.Nodes[o.Idx]
	if n.inc == nil || o.L.PausedOp[o.Idx] {
		return nil
	}
	var out []*types.Operation
	for _, op := range n.PendingOps() {
		if o.Filter == nil || o.Filter(op) {
			out = append(out, op)
		}
	}
	return out
}

func (o *Operator) Actions(w *World) []Action {
	ops := o.eligible(w)
	if len(ops) == 0 {
		return nil
	}
	return []Action{{Name: fmt.Sprintf("operator[%d]", o.Idx), Run: func() {
		ops := o.eligible(w)
		if len(ops) == 0 {
			return
		}
		op := ops[w.Tape.Choose(len(ops), "whichOp")]
		o.Handle(w, op)
	}}}
}

// Handle carries one operation through the airgapped machine and back.
func (o *Operator) Handle(w *World, op *types.Operation) *APIResult {
	n := w.Nodes[o.Idx]
	a := w.Airs[o.Idx]
	w.Log.Add("operator[%d] takes %s round=%.8s batch=%.8s", o.Idx, op.Type, op.DKGIdentifier, BatchOfOp(op))
	if string(op.Type) == string(spf.StateAwaitParticipantsConfirmations) {
		body, _ := json.Marshal(map[string]string{"operationID": op.ID})
		var rep *APIResult
		if o.L.Faults.BoardDownAtSubmit && w.Tape.Bool(1, 6, "boardDownAtApprove?") {
			n.Handle.SendErrOnce = true
		}
		if o.Approve != nil {
			rep = o.Approve(op, body)
		} else {
			rep = w.CallAPI(n, "approve", "POST", "/approveDKGParticipation", body)
		}
		n.Handle.SendErrOnce = false
		if o.OnResult != nil {
			o.OnResult(op, nil, rep)
		}
		return rep
	}
	// the operation file is what the node's API hands out
	get := w.CallAPI(n, "getOperation", "GET", "/getOperation?operationID="+q(op.ID), nil)
	if !get.OK() {
		w.Log.Add("operator[%d] getOperation failed: %s", o.Idx, get.ErrMsg)
		return get
	}
	opJSON := []byte(get.Result)
	if o.AlterOp != nil {
		opJSON = o.AlterOp(op, opJSON)
	}
	if o.PreAir != nil {
		o.PreAir(op, opJSON)
		if w.Failed() {
			return &APIResult{ErrMsg: "aborted"}
		}
	}
	if a.Dead {
		// the machine died while the operator was at it (an extra file fed by a
		// scenario hook): the genuine file waits until the machine is back
		return &APIResult{Crashed: true}
	}
	var res []byte
	var err error
	if cached, ok := o.results[op.ID]; ok && !o.Refeed {
		res = cached
		w.Stats.Probe("result-file-resubmitted")
	} else if fb, ferr := os.ReadFile(filepath.Join(a.ResultDir, op.Filename()+"_result.json")); o.UseResultFiles && a.Restarts > 0 && ferr == nil && !o.Refeed {
		res = fb
		w.Stats.Probe("result-file-from-replay-used")
	} else {
		res, err = w.AirProcess(a, opJSON)
		if err != nil {
			w.Log.Add("air[%d] error: %v", o.Idx, err)
			return &APIResult{ErrMsg: "airgapped: " + err.Error()}
		}
		if res == nil { // machine crashed
			return &APIResult{Crashed: true}
		}
		if o.RetryRefused && w.Tape.Bool(1, 2, "retryRefused?") {
			// the machine answered with its failure report: the operator tries the
			// same file once more before carrying anything back (same process, no
			// restart in between) and takes whatever the second attempt says
			var ro types.Operation
			if json.Unmarshal(res, &ro) == nil && strings.Contains(string(ro.Event), "error") {
				if res2, err2 := w.AirProcess(a, opJSON); err2 == nil && res2 != nil {
					res = res2
					w.Stats.Fault("refused-operation-fed-again")
				}
			}
		}
		if o.results == nil {
			o.results = map[string][]byte{}
		}
		o.results[op.ID] = res
	}
	// carrier: canonical order, then a tape-chosen permutation
	var resOp types.Operation
	if err := json.Unmarshal(res, &resOp); err != nil {
		if w.Prop == "C15" || w.Prop == "C12" {
			w.Fail(w.Prop, "result-file-not-json/"+string(op.Type), fmt.Sprintf("result file of %s is not valid JSON: %v", op.Type, err))
		}
		w.Log.Add("operator[%d]: result file is not valid JSON: %v", o.Idx, err)
		return &APIResult{ErrMsg: err.Error()}
	}
	CanonicalResultMsgs(resOp.ResultMsgs)
	if o.L.Faults.PermuteResults && len(resOp.ResultMsgs) > 1 {
		for i := len(resOp.ResultMsgs) - 1; i > 0; i-- {
			j := w.Tape.Choose(i+1, "perm")
			resOp.ResultMsgs[i], resOp.ResultMsgs[j] = resOp.ResultMsgs[j], resOp.ResultMsgs[i]
		}
	}
	body, _ := json.Marshal(resOp)
	if o.Tamper != nil {
		body = o.Tamper(op, body)
		if body == nil {
			return &APIResult{ErrMsg: "dropped by carrier"}
		}
	}
	if o.PreSubmit != nil {
		o.PreSubmit(op, body)
		if w.Failed() {
			return &APIResult{ErrMsg: "aborted"}
		}
	}
	var rep *APIResult
	if o.L.Faults.BoardDownAtSubmit && w.Tape.Bool(1, 6, "boardDownAtSubmit?") {
		n.Handle.SendErrOnce = true
	}
	if o.L.Faults.PartialPost && !n.Handle.SendErrOnce && w.Tape.Bool(1, 5, "partialPost?") {
		n.Handle.SendPartialOnce = 1 + w.Tape.Choose(2, "postedBeforeOutage")
	}
	if o.Submit != nil {
		rep = o.Submit(op, body)
	} else {
		rep = w.CallAPI(n, "submit", "POST", "/handleProcessedOperationJSON", body)
	}
	n.Handle.SendErrOnce = false
	n.Handle.SendPartialOnce = 0
	if !rep.OK() {
		w.Log.Add("operator[%d] submit rejected: %.120s", o.Idx, rep.ErrMsg)
	}
	if o.OnResult != nil {
		o.OnResult(op, body, rep)
	}
	return rep
}

// AirProcess runs one operation file through the airgapped machine as a task
// (so that the hook yields inside ProcessOperation are gates). A nil result
// with nil error means the machine process was killed.
func (w *World) AirProcess(a *AirNode, opJSON []byte) ([]byte, error) {
	var res []byte
	var err error
	t := w.Do(fmt.Sprintf("air[%d]", a.Idx), -1, a.Idx, func() {
		res, _, err = a.ProcessFile(opJSON)
	})
	if t.crashed {
		return nil, nil
	}
	if t.panicV != nil {
		a.Panics = append(a.Panics, fmt.Sprintf("%v @ %s", t.panicV, panicSite(t.panicStack)))
		err = fmt.Errorf("panic: %v", t.panicV)
		t.panicV = nil
	}
	return res, err
}

// ---- proposals --------------------------------------------------------------

// dkgKeyOf: the key-generation key the proposal lists for member i (its own
// machine's, unless a scenario lets the proposer list something else).
func (w *World) dkgKeyOf(i int) []byte {
	if w.DkgKeyOf != nil {
		return w.DkgKeyOf(i)
	}
	return w.Airs[i].PubKeyBytes()
}

// StartDKGPayload builds the opening proposal exactly as dc4bc_cli start_dkg does.
func (w *World) StartDKGPayload(threshold int, members []int) []byte {
	var parts []*requests.SignatureProposalParticipantsEntry
	for _, i := range members {
		parts = append(parts, &requests.SignatureProposalParticipantsEntry{
			Username:  w.Nodes[i].Name,
			PubKey:    w.Nodes[i].Pub,
			DkgPubKey: w.dkgKeyOf(i),
		})
	}
	b, err := json.Marshal(requests.SignatureProposalParticipantsListRequest{
		Participants:     parts,
		SigningThreshold: threshold,
		CreatedAt:        time.Now(),
	})
	if err != nil {
		panic(err)
	}
	return b
}

func RoundID(payload []byte) string {
	h := sha256.Sum256(payload)
	return hex.EncodeToString(h[:])
}

func RoundIDBytes(payload []byte) []byte {
	h := sha256.Sum256(payload)
	return h[:]
}
