package cluster

import (
	"encoding/json"
	"fmt"
	"strings"
	"testing"

	"github.com/lidofinance/dc4bc/client/services/node"
	"github.com/lidofinance/dc4bc/client/types"
	"github.com/lidofinance/dc4bc/fsm/types/requests"
	"github.com/lidofinance/dc4bc/storage"

	"dst/sim"
)

// runC13Reinit is C13 on the reinitialisation path: a completed key generation
// is dumped, brand-new hot nodes and machines are reinitialised from the dump,
// and one of the new hot nodes is killed at a planned gate while it handles the
// reinit message, answers its reinit operation, or takes part in the signing
// that follows. After the restart on the same state directory it must still
// offer what was pending, and the reinitialisation and a signing must complete
// as in the crash-free run.
func runC13Reinit(w *World, tier string, spec *crashSpec, out *c13Run) (bool, interface{}) {
	n := 2 + w.Tape.Choose(2, "n")
	t := 2 + w.Tape.Choose(n-1, "t")
	c := NewCluster(w, n)
	c.L.Faults.PermuteResults = true
	members := AllMembers(n)
	round, rep := c.StartDKG(w.Tape.Choose(n, "proposer"), t, members)
	if !rep.OK() {
		w.Fail("C13", "startdkg-rejected", rep.ErrMsg)
		return false, nil
	}
	if !c.RunDKG(round, members, 500*n) {
		return false, fmt.Sprintf("original ceremony did not complete: %v", states(c, round))
	}
	c.L.Quiesce(6)
	origKey, err := w.GroupKey(round)
	if err != nil {
		return false, "no group key after the original ceremony"
	}
	oldMsgs := append([]storage.Message(nil), w.Board.Msgs...)
	for i := 0; i < n; i++ {
		w.stopNode(w.Nodes[i], true)
		w.Airs[i].close()
	}
	// new world: new board, new nodes, new machines
	w.Board = newBoard(w)
	c2 := &Cer{W: w, L: NewLoop(w), N: n}
	c2.L.Faults = c.L.Faults
	c2.Tr = NewTracker(w)
	newIdx := make([]int, n)
	newKeys := map[string][]byte{}
	for i := 0; i < n; i++ {
		idx, err := addReinitParticipant(w, i)
		if err != nil {
			w.Fail("C13", "reinit-setup-failed", err.Error())
			return false, nil
		}
		newIdx[i] = idx
		newKeys[w.Nodes[idx].Name] = w.Nodes[idx].Pub
		op := &Operator{L: c2.L, Idx: idx}
		c2.Ops = append(c2.Ops, op)
		c2.L.Actors = append(c2.L.Actors, op)
	}
	// a 0.1.4 log: no self-confirmation deal messages, and key announcements without the public
	// polynomial - the answer to the reinit operation is then the only source of it, so that
	// answer's writes (round, retired operations) are crash points that matter
	variant014 := w.Tape.Bool(1, 2, "log-0.1.4")
	if variant014 {
		var f []storage.Message
		for _, m := range oldMsgs {
			if m.Event == "event_dkg_deal_confirm_received" {
				var req requests.DKGProposalDealConfirmationRequest
				if json.Unmarshal(m.Data, &req) == nil && string(req.Deal) == "self-confirm" {
					continue
				}
			}
			if m.Event == "event_dkg_master_key_confirm_received" {
				var req requests.DKGProposalMasterKeyConfirmationRequest
				if json.Unmarshal(m.Data, &req) == nil {
					req.PubPolyBz = nil
					m.Data, _ = json.Marshal(req)
				}
			}
			f = append(f, m)
		}
		oldMsgs = f
		w.Stats.Fault("log-without-self-confirmations")
	}
	reDKG, err := types.GenerateReDKGMessage(oldMsgs, newKeys)
	if err != nil {
		w.Fail("C13", "reinit-file-generation-failed", err.Error())
		return false, nil
	}
	if variant014 {
		if reDKG, err = node.GetAdaptedReDKG(reDKG); err != nil {
			w.Fail("C13", "reinit-adaptation-failed", err.Error())
			return false, nil
		}
	}
	reBz, _ := json.Marshal(reDKG)
	vi := w.Tape.Choose(n, "victim")
	victim := newIdx[vi]
	poster := newIdx[(vi+1+w.Tape.Choose(n-1, "poster"))%n]
	so := &signOracle{c: c2, prop: "C13"}
	so.install()
	step := installCrashKeeper(w, victim, spec, out)
	c2.L.AfterStep = step
	if rp := w.CallAPI(w.Nodes[poster], "reinitDKG", "POST", "/reinitDKG", reBz); !rp.OK() {
		w.Fail("C13", "reinit-request-rejected", rp.ErrMsg)
		return true, nil
	}
	reinitDone := func() bool {
		for _, idx := range newIdx {
			nd := w.Nodes[idx]
			if nd.inc == nil {
				return false
			}
			d := nd.Dump(round)
			if d == nil || string(d.State) != StIdle || len(nd.PendingOps()) > 0 || d.Payload.DKGProposalPayload == nil || len(d.Payload.DKGProposalPayload.PubPolyBz) == 0 {
				return false
			}
		}
		return true
	}
	c2.L.RunUntil(reinitDone, 300*n)
	signed := false
	if reinitDone() && !w.Failed() {
		before := len(c2.Tr.Order)
		p2 := newIdx[w.Tape.Choose(n, "proposer2")]
		var retry func() bool
		retry = func() bool {
			if len(c2.Tr.Order) > before {
				return true
			}
			if w.Nodes[p2].inc == nil {
				return false
			}
			rp := c2.ProposeFiles(p2, round, map[string][]byte{"c13 after reinit": []byte("signed after a reinitialisation with a crash")})
			return !rp.Crashed
		}
		pending := !retry()
		c2.L.AfterStep = func() {
			step()
			if pending && !w.Failed() && retry() {
				pending = false
			}
		}
		if pending {
			step()
		}
		c2.L.RunUntil(func() bool {
			return len(c2.Tr.Order) > before && c2.Tr.AllHaveBatch(c2.Tr.LastBatch(), newIdx) && c2.AllInState(round, StIdle, newIdx)
		}, 400*n)
		signed = len(c2.Tr.Order) > before
	}
	for i := 0; i < 8 && w.Nodes[victim].inc == nil && !w.Failed(); i++ {
		step()
	}
	if !w.Failed() {
		c2.L.Quiesce(14)
	}
	done := false
	if !w.Failed() {
		done = reinitDone() && signed && c2.Tr.AllHaveBatch(c2.Tr.LastBatch(), newIdx)
		so.checkStores(round, newIdx)
		checkNoDuplicateStoreEntries(w, "C13", round, newIdx)
	}
	if out != nil {
		out.completed = done
		out.steps = w.Steps
		out.groupKey = fmt.Sprintf("%x", origKey)
		if done {
			// what the reinitialised nodes retain must be the original key
			if gk, err := w.GroupKey(round); err == nil {
				out.groupKey = fmt.Sprintf("%x", gk)
			}
		}
	}
	if spec != nil && !w.Failed() && !done {
		ws := strings.Join(out.windows, " ; ")
		inReinit := false
		for _, wd := range out.windows {
			// killed inside the handling of the reinit message after one of its
			// writes: explains a stall on its own (recorded finding); name it alone
			if strings.HasPrefix(wd, "task=poll/handling=reinit_dkg/") && (strings.HasSuffix(wd, "/after=st.set:sim_fsm_state") || strings.HasSuffix(wd, "/after=st.set:sim_operations")) {
				ws = wd
				inReinit = true
				break
			}
		}
		family := "reinitialisation-stalled-after-crash/"
		// (whether another window explains the stall is decided by the windows themselves, not by
		// how the joined list happens to begin: a run with several kills may start with a harmless
		// kill inside the reinit message - before any of its writes - and hold the recorded window
		// of an ordinary message further back)
		if !inReinit {
			for _, wd := range out.windows {
				// the window "round state durable, operation not yet" of an ordinary
				// message (here: of the signing that follows) is the finding already
				// recorded for the ordinary ceremony; same signature
				if strings.Contains(wd, "/after=st.set:sim_fsm_state") && strings.Contains(wd, "_operations/") && strings.HasPrefix(wd, "task=poll/") && !strings.Contains(wd, "handling=reinit_dkg") {
					ws = wd
					family = "ceremony-stalled-after-crash/"
					break
				}
			}
		}
		if ws == "" {
			ws = "no-crash-fired"
		}
		w.Fail("C13", family+ws, fmt.Sprintf("with the crash(es) the reinitialisation + signing does not reach the outcome of the crash-free run: states %v, pending ops %v, victim=%d, n=%d t=%d", statesOf(w, newIdx, round), pendingTypes(w), victim, n, t))
	}
	for _, nd := range w.Nodes {
		if len(nd.Panics) > 0 {
			w.Fail("C13", "panic-after-restart", strings.Join(nd.Panics, "; "))
		}
	}
	return done, map[string]interface{}{"n": n, "t": t, "victim": victim, "windows": out.windows, "steps": w.Steps, "path": "reinit"}
}

func init() {
	Register(&Scenario{Prop: "C13", Name: "C13-reinit",
		Driver: func(t *testing.T, sc *Scenario, tier string, tape *sim.Tape, keepAll bool) sim.RunResult {
			return c13DriverWith(runC13Reinit, t, sc, tier, tape, keepAll)
		},
		Run: func(w *World, tier string) (bool, interface{}) {
			rec := &c13Run{}
			return runC13Reinit(w, tier, specFrom(w.Tape.Params), rec)
		}})
}
