package cluster

import (
	"encoding/json"
	"fmt"
	"os"
	"path/filepath"
	"sort"
	"strconv"
	"strings"
	"testing"
	"time"

	"github.com/lidofinance/dc4bc/client/types"
	dpf "github.com/lidofinance/dc4bc/fsm/state_machines/dkg_proposal_fsm"
	"github.com/lidofinance/dc4bc/fsm/types/requests"
	"github.com/lidofinance/dc4bc/storage"

	"dst/sim"
)

// c12Out is what one world reports for the comparison with the crash-free twin.
type c12Out struct {
	completed bool
	commits   map[int]string // participant -> published commitments (canonical)
	groupKey  string
	shares    map[int]string
	airGates  []string // reference: gate sequence of all airgapped tasks
	windows   []string
	fed       map[int][][]byte // operation files fed to each machine, in order
	oplog     map[int]string   // per machine: the durable operation log (ids in order) at the end
}

// opLogOf reads the machine's durable operation log (hook H2 snapshot).
func opLogOf(a *AirNode) string {
	if a.M == nil {
		return ""
	}
	snap, err := a.M.SimSnapshot()
	if err != nil {
		return ""
	}
	var lg map[string][]types.Operation
	if json.Unmarshal(snap["operations_log"], &lg) != nil {
		return "?"
	}
	var rs []string
	for r := range lg {
		rs = append(rs, r)
	}
	sort.Strings(rs)
	// round ids are not part of the comparison (an id is the hash of a proposal that
	// carries its creation time, which differs between two runs): the rounds' logs are
	// compared as a multiset
	var per []string
	for _, r := range rs {
		var sb strings.Builder
		commits := 0
		for _, o := range lg[r] {
			if string(o.Type) == string(dpf.StateDkgCommitsAwaitConfirmations) {
				// the harness's duplicated hand-overs of the commits file (refused by
				// the machine, logged all the same) happen at tape-chosen moments that
				// differ between the uninterrupted and the interrupted run: only the
				// first commits entry of a round is compared
				commits++
				if commits > 1 {
					continue
				}
			}
			fmt.Fprintf(&sb, "%s,", o.Type)
		}
		per = append(per, sb.String())
	}
	sort.Strings(per)
	return strings.Join(per, ";")
}

func shareOf(a *AirNode, round string) string {
	kr := a.Keyring(round)
	if kr == nil {
		return ""
	}
	b, _ := kr.Share.V.MarshalBinary()
	return fmt.Sprintf("%d:%x", kr.Share.I, b)
}

func runC12World(w *World, tier string, crashAt []int, out *c12Out) (bool, interface{}) {
	n := 2 + w.Tape.Choose(2, "n")
	if tier == "thorough" && w.Tape.Bool(1, 4, "n4") {
		n = 4
	}
	t := 2 + w.Tape.Choose(n-1, "t")
	c := NewCluster(w, n)
	c.L.Faults.PermuteResults = true
	members := AllMembers(n)
	out.commits = map[int]string{}
	out.shares = map[int]string{}
	out.fed = map[int][][]byte{}
	so := &signOracle{c: c, prop: "C12"}
	so.install()
	round := ""
	var earlierRounds []string
	// what every participant publishes as commitments
	w.Board.OnAppend = append(w.Board.OnAppend, func(m storage.Message, by int) {
		if by >= 0 && m.Event == string(dpf.EventDKGCommitConfirmationReceived) && m.DkgRoundID == round {
			var req requests.DKGProposalCommitConfirmationRequest
			if json.Unmarshal(m.Data, &req) == nil {
				if prev, ok := out.commits[req.ParticipantId]; ok && prev != string(req.Commit) {
					w.Fail("C12", "commitments-republished-differently", fmt.Sprintf("participant %d published two different commitment lists in one round", req.ParticipantId))
				}
				out.commits[req.ParticipantId] = string(req.Commit)
			}
		}
	})
	w.GateHook = func(tk *Task, g GateInfo) {
		if tk.Air >= 0 && tk.Node < 0 && crashAt == nil {
			out.airGates = append(out.airGates, fmt.Sprintf("air%d:%s:%s", tk.Air, g.Point, g.Key))
		}
	}
	ci := 0
	if len(crashAt) > 0 {
		w.CrashAirAt = crashAt[0]
	}
	// clock fault: one hot node's clock is set back by hours between two steps
	// of the ceremony, so the operations it issues from then on carry earlier
	// timestamps than the ones before (the machine logs them as they come)
	backNode, backFrom, backBy := -1, "", time.Duration(0)
	if w.Tape.Bool(1, 3, "clockSetBack") {
		backNode = w.Tape.Choose(n, "backNode")
		backFrom = []string{string(dpf.StateDkgDealsAwaitConfirmations), string(dpf.StateDkgResponsesAwaitConfirmations), string(dpf.StateDkgMasterKeyAwaitConfirmations)}[w.Tape.Choose(3, "backFrom")]
		backBy = []time.Duration{90 * time.Minute, 5 * time.Hour, 49 * time.Hour}[w.Tape.Choose(3, "backBy")]
		w.Stats.Fault("hot-node-clock-set-back")
	}
	stepRank := map[string]int{string(dpf.StateDkgCommitsAwaitConfirmations): 1, string(dpf.StateDkgDealsAwaitConfirmations): 2, string(dpf.StateDkgResponsesAwaitConfirmations): 3, string(dpf.StateDkgMasterKeyAwaitConfirmations): 4, "state_signing_await_partial_signs": 5}
	curOp := map[int]string{}
	dupHandOver := w.Tape.Bool(1, 2, "duplicateHandOver")
	for i, op := range c.Ops {
		i, op := i, op
		if i == backNode {
			op.AlterOp = func(o *types.Operation, opJSON []byte) []byte {
				if stepRank[string(o.Type)] < stepRank[backFrom] || stepRank[string(o.Type)] == 0 {
					return opJSON
				}
				var m map[string]json.RawMessage
				var ts time.Time
				if json.Unmarshal(opJSON, &m) != nil || json.Unmarshal(m["CreatedAt"], &ts) != nil {
					return opJSON
				}
				m["CreatedAt"], _ = json.Marshal(ts.Add(-backBy))
				out, err := json.Marshal(m)
				if err != nil {
					return opJSON
				}
				return out
			}
		}
		op.PreAir = func(o *types.Operation, opJSON []byte) {
			// duplicated hand-over: before a later step's file, the operator feeds the
			// round's commits file once more (the stick still holds it). The machine
			// refuses it; a restart and replay afterwards must still end like the
			// uninterrupted run (which saw the same duplicate).
			if dupHandOver && stepRank[string(o.Type)] >= 2 && len(out.fed[i]) > 0 && w.Tape.Bool(1, 3, "dupNow?") {
				var first types.Operation
				if json.Unmarshal(out.fed[i][0], &first) == nil && string(first.Type) == string(dpf.StateDkgCommitsAwaitConfirmations) {
					curOp[i] = string(first.Type) + "(again)"
					_, _ = w.AirProcess(w.Airs[i], out.fed[i][0])
					w.Stats.Fault("operation-file-handed-over-twice")
				}
			}
			curOp[i] = string(o.Type)
			out.fed[i] = append(out.fed[i], append([]byte(nil), opJSON...))
		}
		// after a restart the operator takes the result file the replay
		// regenerated, if there is one, instead of feeding the operation again
		op.UseResultFiles = true
	}
	var dead []int
	w.OnAirCrash = func(tk *Task, at GateInfo) {
		out.windows = append(out.windows, fmt.Sprintf("%s/%s", curOp[tk.Air], at.Point))
		dead = append(dead, tk.Air)
	}
	c.L.AfterStep = func() {
		for len(dead) > 0 {
			i := dead[0]
			dead = dead[1:]
			a := w.Airs[i]
			rounds := append([]string{}, earlierRounds...)
			if round != "" {
				rounds = append(rounds, round)
			}
			// the operator forgets the replay at first: the machine is reopened, the file that was
			// in the works is fed (the machine, which has no round in memory, refuses it), and only
			// then the log is replayed. A refused file must leave nothing behind.
			var lastOp types.Operation
			if len(out.fed[i]) > 0 {
				_ = json.Unmarshal(out.fed[i][len(out.fed[i])-1], &lastOp)
			}
			// (only for steps behind the commits step: a commits file meets no round in
			// memory either way and is simply carried out, which is not a refusal)
			if len(rounds) > 0 && stepRank[string(lastOp.Type)] >= 2 && w.Tape.Bool(1, 3, "fedBeforeReplay") {
				if err := a.Reopen(); err == nil {
					last := out.fed[i][len(out.fed[i])-1]
					if _, _, perr := a.ProcessFile(last); perr == nil {
						w.Stats.Probe("file-fed-before-replay-was-answered")
					} else {
						w.Stats.Fault("operation-file-fed-before-the-replay")
					}
					a.Restarts-- // Restart below counts this restart
				}
			}
			if err := a.Restart(rounds); err != nil {
				// "operation log not found" for a round the machine never logged
				// anything for is the product's answer to replaying too early
				if strings.Contains(err.Error(), "operation log not found") {
					if err2 := a.Restart(nil); err2 != nil {
						w.Fail("C12", "restart-failed", err2.Error())
						return
					}
				} else {
					w.Fail("C12", "replay-failed/"+strings.Join(out.windows, ";"), fmt.Sprintf("machine %d: reopen + ReplayOperationsLog failed: %v", i, err))
					return
				}
			}
			c.Ops[i].results = nil // only what is on disk survives
			ci++
			if ci < len(crashAt) {
				w.CrashAirAt = crashAt[ci]
			} else {
				w.CrashAirAt = 0
			}
		}
	}
	// the machines have served an earlier ceremony in the same process lifetime (its
	// operation log is replayed as well after a restart)
	if w.Tape.Bool(1, 3, "earlierCeremony") {
		t0 := 2 + w.Tape.Choose(n-1, "t0")
		if r0, rep0 := c.StartDKG(w.Tape.Choose(n, "proposer0"), t0, members); rep0.OK() {
			earlierRounds = append(earlierRounds, r0)
			c.RunDKG(r0, members, 600*n)
			w.Advance(2 * time.Second)
			w.Stats.Fault("multi-round")
		}
	}
	var rep *APIResult
	round, rep = c.StartDKG(w.Tape.Choose(n, "proposer"), t, members)
	if !rep.OK() {
		w.Fail("C12", "startdkg-rejected", rep.ErrMsg)
		return false, nil
	}
	ready := c.RunDKG(round, members, 600*n)
	if ready && !w.Failed() {
		before := len(c.Tr.Order)
		c.ProposeFiles(w.Tape.Choose(n, "proposer"), round, map[string][]byte{"c12": []byte("sign after restart")})
		c.L.RunUntil(func() bool {
			return len(c.Tr.Order) > before && c.Tr.AllHaveBatch(c.Tr.LastBatch(), members) && c.AllInState(round, StIdle, members)
		}, 400*n)
	}
	if !w.Failed() {
		c.L.Quiesce(10)
	}
	if !w.Failed() {
		out.completed = c.AllInState(round, StIdle, members) && len(c.Tr.Order) > 0 && c.Tr.AllHaveBatch(c.Tr.LastBatch(), members)
		so.checkStores(round, members)
		if gk, err := w.GroupKey(round); err == nil {
			out.groupKey = fmt.Sprintf("%x", gk)
		}
		out.oplog = map[int]string{}
		for i, a := range w.Airs {
			out.shares[i] = shareOf(a, round)
			out.oplog[i] = opLogOf(a)
		}
	}
	for _, a := range w.Airs {
		if len(a.Panics) > 0 && !w.Failed() {
			w.Fail("C12", "airgapped-panic", strings.Join(a.Panics, "; "))
		}
	}
	if crashAt != nil && !w.Failed() && !out.completed {
		w.Fail("C12", "ceremony-not-completed-after-restart/"+strings.Join(out.windows, ";"), fmt.Sprintf("machine restarted at %v and replayed; states %v, pending %v (n=%d t=%d)", out.windows, states(c, round), pendingTypes(w), n, t))
	}
	// second part: a machine built from the same mnemonic and fed the same
	// operations derives identical long-term key, commitments and share
	if crashAt == nil && out.completed && !w.Failed() {
		i := w.Tape.Choose(n, "twinOf")
		orig := w.Airs[i]
		tw := &AirNode{w: w, Idx: 100 + i, Dir: w.Path("twin_db"), ResultDir: w.Path("twin_results"), Mnemonic: orig.Mnemonic, Password: []byte("another password")}
		_ = os.MkdirAll(tw.ResultDir, 0o755)
		if err := tw.Open(true); err != nil {
			w.Fail("C12", "twin-open-failed", err.Error())
		} else {
			defer tw.close()
			if string(tw.PubKeyBytes()) != string(orig.PubKeyBytes()) {
				w.Fail("C12", "twin-long-term-key-differs", fmt.Sprintf("machine %d and a machine created from the same mnemonic have different long-term keys", i))
			}
			var twinCommit string
			for _, opJSON := range out.fed[i] {
				var o types.Operation
				if json.Unmarshal(opJSON, &o) != nil || o.IsSigningState() {
					continue
				}
				res, _, err := tw.ProcessFile(opJSON)
				if err != nil {
					w.Fail("C12", "twin-rejects-operation/"+string(o.Type), err.Error())
					break
				}
				if string(o.Type) == string(dpf.StateDkgCommitsAwaitConfirmations) {
					var ro types.Operation
					var req requests.DKGProposalCommitConfirmationRequest
					if json.Unmarshal(res, &ro) == nil && len(ro.ResultMsgs) == 1 && json.Unmarshal(ro.ResultMsgs[0].Data, &req) == nil {
						twinCommit = string(req.Commit)
					}
				}
			}
			if !w.Failed() {
				pid := -1
				if d := w.Nodes[i].Dump(round); d != nil {
					pid = d.Payload.IDs[w.Nodes[i].Name]
				}
				if twinCommit != out.commits[pid] {
					w.Fail("C12", "twin-commitments-differ", fmt.Sprintf("a machine created from the mnemonic of participant %d and fed the same operations publishes different commitments", pid))
				} else if shareOf(tw, round) != out.shares[i] {
					w.Fail("C12", "twin-share-differs", fmt.Sprintf("a machine created from the mnemonic of machine %d and fed the same operations ends with a different share (%s vs %s)", i, shareOf(tw, round), out.shares[i]))
				} else {
					w.Stats.Probe("twin-from-mnemonic-identical")
				}
			}
		}
	}
	return out.completed, map[string]interface{}{"n": n, "t": t, "windows": out.windows, "completed": out.completed}
}

func canonCommits(m map[int]string) string {
	var ks []int
	for k := range m {
		ks = append(ks, k)
	}
	sort.Ints(ks)
	var sb strings.Builder
	for _, k := range ks {
		fmt.Fprintf(&sb, "%d=%s;", k, m[k])
	}
	return sb.String()
}

func c12Driver(t *testing.T, sc *Scenario, tier string, tape *sim.Tape, keepAll bool) sim.RunResult {
	ref := &c12Out{}
	sub := func(params map[string]string, rec *c12Out) sim.RunResult {
		tp := tape.Fork()
		tp.Params = params
		return runBubble(t, tier, tp, keepAll, func(w *World) (bool, interface{}) {
			w.Prop = "C12"
			return runC12World(w, tier, c12Spec(params), rec)
		})
	}
	res := sub(map[string]string{"mode": "reference"}, ref)
	tape.Out = res.Tape
	if res.Inconclusive != "" {
		return res
	}
	if res.Violation != nil {
		res.Params = map[string]string{"mode": "reference"}
		return res
	}
	if !ref.completed {
		res.Inconclusive = "crash-free reference run did not complete"
		return res
	}
	total := len(ref.airGates)
	agg := res
	agg.Stats = sim.NewStats()
	res.Stats.AddTo(agg.Stats)
	agg.Stats.ProbeN("crash-positions-total", total)
	var positions []int
	if tier == "thorough" {
		for k := 1; k <= total; k++ {
			positions = append(positions, k)
		}
	} else {
		r := tape.Sub(0xc12)
		seen := map[int]bool{}
		for len(positions) < 8 && len(positions) < total {
			k := 1 + int(r.Next()%uint64(total))
			if !seen[k] {
				seen[k] = true
				positions = append(positions, k)
			}
		}
		sort.Ints(positions)
	}
	var firstKnown *sim.RunResult
	tried := 0
	wins := map[string]bool{}
	runSub := func(params map[string]string) *sim.RunResult {
		rec := &c12Out{}
		r := sub(params, rec)
		tried++
		if r.Stats != nil {
			r.Stats.AddTo(agg.Stats)
		}
		agg.Steps += r.Steps
		agg.Gates += r.Gates
		agg.FakeSeconds += r.FakeSeconds
		for _, wd := range rec.windows {
			wins[wd] = true
		}
		if r.Violation == nil && r.Inconclusive == "" {
			ws := strings.Join(rec.windows, ";")
			switch {
			case canonCommits(rec.commits) != canonCommits(ref.commits):
				r.Violation = &sim.Violation{Property: "C12", Signature: "commitments-differ-from-uninterrupted-run/" + ws, Detail: fmt.Sprintf("after restart+replay (%s) the published commitments differ from the uninterrupted run", ws)}
			case rec.groupKey != ref.groupKey:
				r.Violation = &sim.Violation{Property: "C12", Signature: "group-key-differs-from-uninterrupted-run/" + ws, Detail: fmt.Sprintf("after restart+replay (%s): group key %s, uninterrupted run %s", ws, rec.groupKey, ref.groupKey)}
			default:
				for i, lg := range ref.oplog {
					if rec.oplog[i] != lg && r.Violation == nil {
						r.Violation = &sim.Violation{Property: "C12", Signature: "operation-log-differs-from-uninterrupted-run/" + ws, Detail: fmt.Sprintf("machine %d: after restart+replay (%s) its durable operation log is [%s], in the uninterrupted run [%s]", i, ws, rec.oplog[i], lg)}
					}
				}
				for i, s := range ref.shares {
					if rec.shares[i] != s {
						r.Violation = &sim.Violation{Property: "C12", Signature: "share-differs-from-uninterrupted-run/" + ws, Detail: fmt.Sprintf("machine %d ends with another private share than in the uninterrupted run (%s)", i, ws)}
					}
				}
			}
		}
		if r.Violation != nil && sim.IsKnownFinding(r.Violation.Property, r.Violation.Signature) {
			if firstKnown == nil {
				r.Params = params
				rr := r
				firstKnown = &rr
			}
			return nil
		}
		if r.Violation != nil || r.Inconclusive != "" {
			r.Params = params
			return &r
		}
		return nil
	}
	for _, k := range positions {
		if bad := runSub(map[string]string{"mode": "crash", "at": strconv.Itoa(k)}); bad != nil {
			bad.Stats = agg.Stats
			return *bad
		}
	}
	agg.Stats.ProbeN("crash-positions-tried", len(positions))
	if total > 3 {
		r := tape.Sub(0xc1212)
		for rep := 0; rep < 3; rep++ {
			k1 := 1 + int(r.Next()%uint64(total))
			k2 := k1 + 1 + int(r.Next()%uint64(total/2+1))
			k3 := k2 + 1 + int(r.Next()%uint64(total/2+1))
			if bad := runSub(map[string]string{"mode": "crash", "at": fmt.Sprintf("%d,%d,%d", k1, k2, k3)}); bad != nil {
				bad.Stats = agg.Stats
				return *bad
			}
			agg.Stats.Probe("multi-restart-run")
		}
	}
	if firstKnown != nil {
		agg.Violation, agg.Params, agg.Tape = firstKnown.Violation, firstKnown.Params, firstKnown.Tape
	}
	agg.NonTrivial = tried > 0
	agg.Sample = map[string]interface{}{"reference": res.Sample, "airgapped_gates": total, "sub_runs": tried, "first_gates": head(ref.airGates, 10)}
	agg.Abstract = nil
	for wd := range wins {
		agg.Abstract = append(agg.Abstract, "restart-at:"+wd)
	}
	return agg
}

func c12Spec(p map[string]string) []int {
	if p["mode"] == "crash" {
		return parseInts(p["at"])
	}
	return nil
}

func init() {
	Register(&Scenario{Prop: "C12", Name: "C12", Driver: c12Driver,
		Run: func(w *World, tier string) (bool, interface{}) {
			return runC12World(w, tier, c12Spec(w.Tape.Params), &c12Out{})
		}})
}

var _ = filepath.Join
