package cluster

import (
	"bytes"
	"crypto/ed25519"
	"encoding/json"
	"fmt"
	"regexp"
	"strconv"
	"strings"

	"github.com/lidofinance/dc4bc/client/types"
	"github.com/lidofinance/dc4bc/fsm/state_machines"
	spf "github.com/lidofinance/dc4bc/fsm/state_machines/signature_proposal_fsm"
	"github.com/lidofinance/dc4bc/storage"
)

var pidRe = regexp.MustCompile(`"ParticipantId":\s*(-?\d+)`)

func pidOf(data []byte) (int, bool) {
	m := pidRe.FindSubmatch(data)
	if m == nil {
		return 0, false
	}
	v, err := strconv.Atoi(string(m[1]))
	return v, err == nil
}

// participantRecords extracts everything a node records for participant pid
// in one round (all three quorums), as canonical JSON.
func participantRecords(snap map[string][]byte, round string, pid int) string {
	bz := snap[Topic+"_fsm_state"]
	if len(bz) == 0 {
		return ""
	}
	var all map[string][]byte
	if json.Unmarshal(bz, &all) != nil {
		return "?"
	}
	d, ok := all[round]
	if !ok {
		return ""
	}
	var dump state_machines.FSMDump
	if json.Unmarshal(d, &dump) != nil || dump.Payload == nil {
		return "?"
	}
	out := map[string]interface{}{}
	if p := dump.Payload.SignatureProposalPayload; p != nil {
		if e, ok := p.Quorum[pid]; ok {
			out["sig"] = e
		}
	}
	if p := dump.Payload.DKGProposalPayload; p != nil {
		if e, ok := p.Quorum[pid]; ok {
			out["dkg"] = e
		}
	}
	if p := dump.Payload.SigningProposalPayload; p != nil {
		if e, ok := p.Quorum[pid]; ok {
			out["signing"] = e
		}
	}
	b, _ := json.Marshal(out)
	return string(b)
}

var replayEvents = []string{
	"event_sig_proposal_confirm_by_participant", "event_sig_proposal_decline_by_participant",
	"event_dkg_commit_confirm_received", "event_dkg_deal_confirm_received", "event_dkg_response_confirm_received", "event_dkg_master_key_confirm_received",
	"event_dkg_commit_confirm_canceled_by_error", "event_dkg_deal_confirm_canceled_by_error", "event_dkg_response_confirm_canceled_by_error", "event_dkg_master_key_confirm_canceled_by_error",
	"event_signing_partial_sign_received", "event_signing_partial_sign_error_received", "event_signing_start",
}

// runC10 has two modes: "impersonation" (a participant S posts correctly
// S-signed messages naming another participant P) and "replay" (genuine
// messages are re-posted unchanged under another round id and/or event name).
func runC10(w *World, tier string, mode string) (bool, interface{}) {
	n, t := pickNT(w, tier)
	if n < 3 {
		n = 3
	}
	if n > 4 && tier != "thorough" {
		n = 4
	}
	if t > n {
		t = n
	}
	// look-alike user names: participants choose their own names, so one of them may
	// pick a name that differs from another participant's only by white space or case
	if w.Tape.Bool(1, 3, "lookAlikeNames") {
		w.NameOf = func(i int) string {
			return []string{"node_0", "node_0 ", " node_0", "Node_0", "node_0\t", "node_0  ", "NODE_0"}[i%7]
		}
		w.Stats.Fault("look-alike-user-names")
	}

	c := NewCluster(w, n)
	c.L.Faults.PermuteResults = true
	c.L.Faults.BoardDownAtSubmit = w.Tape.Bool(1, 2, "boardOutages") // single submissions refused by the board; operators submit again
	members := AllMembers(n)
	budget := 3 + w.Tape.Choose(4, "injections")
	injected, judged := 0, 0
	var kinds []string
	var history []storage.Message // genuine messages seen so far
	rounds := []string{}
	wrapped := map[string]bool{} // round ids only the adversary's reinit envelopes name
	for _, op := range c.Ops {
		op.Filter = func(o *types.Operation) bool { return !wrapped[o.DKGIdentifier] }
	}

	w.Board.PreAppend = append(w.Board.PreAppend, func(m storage.Message, by int) {
		if by < 0 {
			return
		}
		defer func() { history = append(history, m) }()
		if m.Event == string(spf.EventInitProposal) || m.Event == string(types.ReinitDKG) || m.Event == string(types.SignatureReconstructed) {
			return
		}
		if injected >= budget || !w.Tape.Bool(1, 3, "inject?") {
			return
		}
		switch mode {
		case "impersonation":
			pid, ok := pidOf(m.Data)
			if !ok {
				return
			}
			p := (pid + 1 + w.Tape.Choose(n-1, "claimed")) % n
			x := m
			x.Data = pidRe.ReplaceAll(m.Data, []byte(fmt.Sprintf(`"ParticipantId":%d`, p)))
			if bytes.Equal(x.Data, m.Data) {
				return
			}
			// the same claim spelled in ways JSON decoders treat differently: S keeps
			// its own id under the exact key and names P under a second key that
			// differs in case (or is simply repeated) - the last one wins when the
			// request is decoded - or uses a differently-cased key only
			if i := bytes.LastIndexByte(m.Data, '}'); i > 0 {
				switch w.Tape.Choose(5, "idKeySpelling") {
				case 1:
					x.Data = append(append(append([]byte(nil), m.Data[:i]...), []byte(fmt.Sprintf(`,"%s":%d`, []string{"participantid", "PARTICIPANTID", "participantId", "Participantid"}[w.Tape.Choose(4, "case")], p))...), m.Data[i:]...)
					w.Stats.Fault("impersonation-by-second-id-key")
				case 2:
					x.Data = append(append(append([]byte(nil), m.Data[:i]...), []byte(fmt.Sprintf(`,"ParticipantId":%d`, p))...), m.Data[i:]...)
					w.Stats.Fault("impersonation-by-second-id-key")
				case 3:
					x.Data = pidRe.ReplaceAll(m.Data, []byte(fmt.Sprintf(`"participantid":%d`, p)))
					w.Stats.Fault("impersonation-by-recased-id-key")
				}
			}
			x.Signature = ed25519.Sign(w.Nodes[by].Priv, x.Bytes()) // correctly signed by S itself
			if w.Tape.Bool(1, 4, "copiedSignature") {
				// ... or S has no key of P either, but every node has already verified
				// P's earlier messages: S posts the payload in P's name (sender field and
				// participant id are P's) under a signature copied from one of them
				pname := ""
				for _, nd := range w.Nodes[:n] {
					if dd := nd.Dump(m.DkgRoundID); dd != nil {
						for name, id := range dd.Payload.IDs {
							if id == p {
								pname = name
							}
						}
						break
					}
				}
				var earlier []storage.Message
				for _, e := range history {
					if e.SenderAddr == pname && e.DkgRoundID == m.DkgRoundID && len(e.Signature) > 0 {
						earlier = append(earlier, e)
					}
				}
				if pname != "" && len(earlier) > 0 {
					x.SenderAddr = pname
					x.Signature = append([]byte(nil), earlier[w.Tape.Choose(len(earlier), "copiedFrom")].Signature...)
					w.Stats.Fault("impersonation-under-a-copied-signature")
				}
			}
			if w.Tape.Bool(1, 2, "alsoSenderField") {
				// S also writes P's name into the (unauthenticated) sender field; the signature is still S's
				for _, nd := range w.Nodes[:n] {
					if d := nd.Dump(m.DkgRoundID); d != nil {
						for name, id := range d.Payload.IDs {
							if id == p {
								x.SenderAddr = name
							}
						}
						break
					}
				}
			}
			injected++
			kinds = append(kinds, "impersonation@"+m.Event)
			w.Stats.Fault("impersonation")
			if w.Tape.Bool(1, 4, "insideReinitEnvelope") {
				// S hides the message in a reinitialisation envelope with an unused id on the
				// outside; the file inside names the live round (or the unused id as well)
				id := freshRoundID(w, uint64(len(w.Board.Msgs))+5)
				parts, thr := reinitParticipants(w, m.DkgRoundID)
				inner, outer := id, id
				switch w.Tape.Choose(3, "envelopeShape") {
				case 1:
					inner = m.DkgRoundID
				case 2:
					outer = m.DkgRoundID
				}
				env := reinitEnvelope(w, by, inner, thr, parts, []storage.Message{x})
				env.DkgRoundID = outer
				env.Signature = ed25519.Sign(w.Nodes[by].Priv, env.Bytes())
				wrapped[id] = true
				w.Stats.Fault("impersonation-inside-reinit-envelope")
				x = env
			}
			w.Board.InjectMsg(x, &Inject{Kind: "impersonation", Detail: fmt.Sprintf("%d|%s", p, m.DkgRoundID)})
		case "replay":
			// source: this message itself (replayed before it lands) or an earlier genuine one
			src := m
			if len(history) > 0 && w.Tape.Bool(1, 2, "older") {
				src = history[w.Tape.Choose(len(history), "which")]
				if src.Event == string(spf.EventInitProposal) || src.Event == string(types.SignatureReconstructed) {
					return
				}
			}
			pid, ok := pidOf(src.Data)
			if !ok {
				return
			}
			x := src
			what := ""
			otherRound := false
			if len(rounds) > 1 && w.Tape.Bool(1, 2, "otherRound") {
				for _, r := range rounds {
					if r != src.DkgRoundID {
						x.DkgRoundID = r
						otherRound = true
					}
				}
			}
			if !otherRound || w.Tape.Bool(1, 2, "otherEvent") {
				ev := replayEvents[w.Tape.Choose(len(replayEvents), "asEvent")]
				if ev == src.Event && !otherRound {
					return
				}
				x.Event = ev
			}
			what = fmt.Sprintf("%s-as-%s/", src.Event, x.Event)
			if otherRound {
				what += "other-round"
			} else {
				what += "same-round"
			}
			if w.Tape.Bool(1, 3, "renameSender") && n > 1 {
				// re-posted "by anyone": the sender field is whatever the poster writes
				x.SenderAddr = w.Nodes[(pid+1)%n].Name
				what += "/sender-renamed"
			}
			injected++
			kinds = append(kinds, what)
			w.Stats.Fault("replay")
			w.Board.InjectMsg(x, &Inject{Kind: "replay:" + what, Detail: fmt.Sprintf("%d", pid)})
		}
	})
	replayAccepted := false
	c.L.OnInjectedConsumed = func(nd *HotNode, off uint64, inj *Inject, before, after map[string][]byte, failed bool, pan string) {
		m := w.Board.Msgs[off]
		if m.RecipientAddr != "" && m.RecipientAddr != nd.Name {
			return
		}
		det := inj.Detail
		liveRound := m.DkgRoundID
		if i := strings.IndexByte(det, '|'); i >= 0 {
			det, liveRound = det[:i], det[i+1:]
		}
		p, _ := strconv.Atoi(det)
		judged++
		w.Abstract[inj.Kind] = true
		if pan != "" {
			w.Fail("C10", "panic/"+inj.Kind, pan)
			return
		}
		rb, ra := participantRecords(before, liveRound, p), participantRecords(after, liveRound, p)
		if rb == ra {
			return
		}
		if inj.Kind == "impersonation" {
			w.Fail("C10", "participant-record-changed-by-foreign-message/"+m.Event,
				fmt.Sprintf("%s: a %s message signed by %s (and sent in its own name) but naming participant %d changed what is recorded for participant %d: %s -> %s", nd.Name, m.Event, m.SenderAddr, p, p, rb, ra))
			return
		}
		replayAccepted = true
		w.Fail("C10", "participant-record-changed-by-replayed-message/"+inj.Kind[len("replay:"):],
			fmt.Sprintf("%s: participant %d's genuine message re-posted unchanged (%s) changed what is recorded for it: %s -> %s", nd.Name, p, inj.Kind, rb, ra))
	}
	round, rep := c.StartDKG(w.Tape.Choose(n, "proposer"), t, members)
	if !rep.OK() {
		w.Fail("C10", "startdkg-rejected", rep.ErrMsg)
		return false, nil
	}
	rounds = append(rounds, round)
	round2 := ""
	if mode == "replay" && w.Tape.Bool(2, 3, "secondRound") {
		// a second round of the same participants on the same board and machines
		c.L.RunUntil(func() bool { return false }, w.Tape.Choose(12*n, "gap"))
		t2 := 2 + w.Tape.Choose(n-1, "t2")
		w.Advance(3e9)
		var rep2 *APIResult
		round2, rep2 = c.StartDKG(w.Tape.Choose(n, "proposer2"), t2, members)
		if rep2.OK() && round2 != round {
			rounds = append(rounds, round2)
			w.Stats.Fault("multi-round")
		} else {
			round2 = ""
		}
	}
	allDone := func() bool {
		for _, r := range rounds {
			if !(c.AllInState(r, StIdle, members) || c.AnyCancelled(r, members)) {
				return false
			}
		}
		return true
	}
	c.L.RunUntil(allDone, 700*n)
	if c.AllInState(round, StIdle, members) && !w.Failed() {
		before := len(c.Tr.Order)
		c.ProposeFiles(w.Tape.Choose(n, "proposer"), round, map[string][]byte{"c10": []byte("sign me")})
		c.L.RunUntil(func() bool {
			return len(c.Tr.Order) > before && c.Tr.AllHaveBatch(c.Tr.LastBatch(), members) && c.AllInState(round, StIdle, members)
		}, 300*n)
	}
	if !w.Failed() {
		c.L.Quiesce(10)
	}
	// outcome equals the twin's: with every foreign message refused, the honest ceremony completes
	if !w.Failed() && !replayAccepted {
		for _, r := range rounds {
			if !c.AllInState(r, StIdle, members) {
				w.Fail("C10", "ceremony-disturbed/"+mode, fmt.Sprintf("no foreign message changed a participant record, yet round %.8s did not complete: %v (injected %v)", r, states(c, r), kinds))
				break
			}
		}
	}
	return judged > 0, map[string]interface{}{"n": n, "t": t, "mode": mode, "rounds": len(rounds), "injected": kinds, "judged": judged, "known_finding_hits": w.KnownHits}
}

func init() {
	Register(&Scenario{Prop: "C10", Name: "C10-impersonation", Run: func(w *World, tier string) (bool, interface{}) { return runC10(w, tier, "impersonation") }})
	Register(&Scenario{Prop: "C10", Name: "C10-replay", Run: func(w *World, tier string) (bool, interface{}) { return runC10(w, tier, "replay") }})
}
