package cluster

import (
	"fmt"
	"runtime/debug"
	"testing"
	"testing/synctest"

	"dst/sim"
)

// Scenario is one property's workload + oracle on the cluster engine.
type Scenario struct {
	Prop string
	Name string
	// Run drives the world; it reports whether the run reached the
	// property's trigger (non-trivial) and a sample description.
	Run func(w *World, tier string) (nontrivial bool, sample interface{})
	// Driver, when set, orchestrates several worlds for one tape (reference
	// run + fault enumeration). It is bypassed when the tape carries Params:
	// then Run executes exactly that one sub-run (replay, minimisation).
	Driver func(t *testing.T, sc *Scenario, tier string, tape *sim.Tape, keepAll bool) sim.RunResult
}

var Scenarios = map[string]*Scenario{}

func Register(s *Scenario) { Scenarios[s.Name] = s }

// RunOne executes one simulated run of a scenario from a tape, inside a fresh
// synctest bubble.
func RunOne(t *testing.T, sc *Scenario, tier string, tape *sim.Tape, keepAll bool) sim.RunResult {
	if sc.Driver != nil && tape.Params == nil {
		return sc.Driver(t, sc, tier, tape, keepAll)
	}
	res := runBubble(t, tier, tape, keepAll, func(w *World) (bool, interface{}) { w.Prop = sc.Prop; return sc.Run(w, tier) })
	res.Params = tape.Params
	return res
}

// runBubble executes fn on a fresh world inside a fresh synctest bubble.
func runBubble(t *testing.T, tier string, tape *sim.Tape, keepAll bool, fn func(w *World) (bool, interface{})) (res sim.RunResult) {
	res.Seed = tape.Seed
	res.Stats = sim.NewStats()
	var w *World
	func() {
		defer func() {
			if r := recover(); r != nil {
				// harness/bubble trouble is never a violation
				res.Inconclusive = fmt.Sprintf("harness panic: %v\n%s", r, debug.Stack())
			}
		}()
		synctest.Test(t, func(t *testing.T) {
			w = NewWorld(tape)
			w.Log.All = keepAll
			defer w.Cleanup()
			func() {
				defer func() {
					if r := recover(); r != nil {
						res.Inconclusive = fmt.Sprintf("scenario panic: %v\n%s", r, debug.Stack())
					}
				}()
				res.NonTrivial, res.Sample = fn(w)
			}()
		})
	}()
	if w != nil {
		res.Violation = w.viol
		if res.Violation == nil {
			res.Violation = w.known
		}
		res.Stats = w.Stats
		res.Fingerprint = w.Log.Fingerprint()
		res.DistinctKey = res.Fingerprint
		res.Steps = w.Steps
		res.Gates = w.Gates
		res.FakeSeconds = w.fakeSeconds
		res.Trace = w.Log.Tail()
		if keepAll {
			res.Trace = w.Log.Lines()
		}
		for k := range w.Abstract {
			res.Abstract = append(res.Abstract, k)
		}
	}
	res.Tape = append([]uint32(nil), tape.Out...)
	res.TapeLen = len(tape.Out)
	return res
}
