package cluster

import (
	"runtime/debug"
	"sync"

	"github.com/syndtr/goleveldb/leveldb"

	"github.com/lidofinance/dc4bc/client/modules/state"
)

func stackTrace() []byte { return debug.Stack() }

// gateState decorates the real LevelDBState: every store call first parks at a
// gate (one LevelDB Put/Get is the atomic unit, which is also what a process
// crash can or cannot have completed). After the incarnation was killed every
// call panics with the crash sentinel, so deferred code of a dead process
// cannot write ("no ghost writes").
type gateState struct {
	w     *World
	node  int
	real  *state.LevelDBState
	mu    sync.Mutex
	dead  bool
	extra []*leveldb.DB // handles replaced by Reset, closed by the harness
	// torn: the next write is performed and the process dies right after it
	// (the scheduler then tears the journal record the write produced)
	torn bool
	// write observer (C13/C14 oracles)
	OnWrite func(op, key string, val []byte)
}

var _ state.State = (*gateState)(nil)

func (g *gateState) kill() {
	g.mu.Lock()
	g.dead = true
	g.mu.Unlock()
}

func (g *gateState) enter(point, key string) {
	g.mu.Lock()
	dead := g.dead
	g.mu.Unlock()
	if dead {
		panic(crashSentinel{node: g.node})
	}
	g.w.Gate(point, key)
	g.mu.Lock()
	dead = g.dead
	g.mu.Unlock()
	if dead {
		panic(crashSentinel{node: g.node})
	}
}

// afterWrite ends the task when the scheduler planned a torn write for it.
func (g *gateState) afterWrite() {
	g.mu.Lock()
	torn := g.torn
	g.torn = false
	if torn {
		g.dead = true
	}
	g.mu.Unlock()
	if torn {
		panic(crashSentinel{node: g.node})
	}
}

// leave is the optional gate BEHIND a store call (World.PostGates): a task can
// then be pre-empted between the return of a read and the code that acts on
// what was read (e.g. before it installs the value in an in-memory copy).
func (g *gateState) leave(point, key string) {
	if g.w.PostGates {
		g.enter(point+".ret", key)
	}
}

func (g *gateState) Get(key string) ([]byte, error) {
	g.enter("st.get", key)
	v, err := g.real.Get(key)
	g.leave("st.get", key)
	return v, err
}

func (g *gateState) GetOrError(key string) ([]byte, error) {
	g.enter("st.getOrErr", key)
	v, err := g.real.GetOrError(key)
	g.leave("st.getOrErr", key)
	return v, err
}

func (g *gateState) Set(key string, value []byte) error {
	g.enter("st.set", key)
	err := g.real.Set(key, value)
	g.afterWrite()
	if err == nil && g.OnWrite != nil {
		g.OnWrite("set", key, value)
	}
	g.leave("st.set", key)
	return err
}

func (g *gateState) Delete(key string) error {
	g.enter("st.del", key)
	err := g.real.Delete(key)
	g.afterWrite()
	return err
}

func (g *gateState) SaveOffset(o uint64) error {
	g.enter("st.saveOffset", "")
	err := g.real.SaveOffset(o)
	g.afterWrite()
	if err == nil && g.OnWrite != nil {
		g.OnWrite("offset", "", nil)
	}
	return err
}

func (g *gateState) LoadOffset() (uint64, error) {
	g.enter("st.loadOffset", "")
	return g.real.LoadOffset()
}

func (g *gateState) Reset(path string) (string, error) {
	g.enter("st.reset", "")
	old := g.real.SimDB()
	p, err := g.real.Reset(path)
	if cur := g.real.SimDB(); cur != old {
		// the product never closes the replaced handle; nobody can reach it
		// any more, so the harness closes it to be able to leave the bubble.
		g.mu.Lock()
		g.extra = append(g.extra, old)
		g.mu.Unlock()
	}
	return p, err
}
