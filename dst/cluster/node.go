package cluster

import (
	"bytes"
	"context"
	"crypto/ed25519"
	"encoding/json"
	"fmt"
	"net/http"
	"net/http/httptest"
	"net/url"
	"sort"
	"sync"

	"github.com/lidofinance/dc4bc/client/api/dto"
	"github.com/lidofinance/dc4bc/client/api/http_api"
	"github.com/lidofinance/dc4bc/client/config"
	"github.com/lidofinance/dc4bc/client/modules/keystore"
	"github.com/lidofinance/dc4bc/client/modules/state"
	oprepo "github.com/lidofinance/dc4bc/client/repositories/operation"
	sigrepo "github.com/lidofinance/dc4bc/client/repositories/signature"
	"github.com/lidofinance/dc4bc/client/services"
	"github.com/lidofinance/dc4bc/client/services/fsmservice"
	"github.com/lidofinance/dc4bc/client/services/node"
	"github.com/lidofinance/dc4bc/client/services/operation"
	"github.com/lidofinance/dc4bc/client/services/signature"
	"github.com/lidofinance/dc4bc/client/types"
	"github.com/lidofinance/dc4bc/fsm/state_machines"
	"github.com/lidofinance/dc4bc/storage"
)

const Topic = "sim"

// memKeyStore is the stub key store (key storage is in no property).
type memKeyStore struct {
	mu   sync.Mutex
	keys map[string]*keystore.KeyPair
}

func (k *memKeyStore) PutKeys(username string, kp *keystore.KeyPair) error {
	k.mu.Lock()
	defer k.mu.Unlock()
	k.keys[username] = kp
	return nil
}

func (k *memKeyStore) LoadKeys(username, _ string) (*keystore.KeyPair, error) {
	k.mu.Lock()
	defer k.mu.Unlock()
	kp, ok := k.keys[username]
	if !ok {
		return nil, fmt.Errorf("no key pair for %s", username)
	}
	return kp, nil
}

// recLogger records the node's log lines (an observation point of C06).
type recLogger struct {
	mu    sync.Mutex
	name  string
	Lines []string
}

func (l *recLogger) Log(format string, args ...interface{}) {
	l.mu.Lock()
	l.Lines = append(l.Lines, fmt.Sprintf(format, args...))
	if len(l.Lines) > 4000 {
		l.Lines = l.Lines[2000:]
	}
	l.mu.Unlock()
}

// HotNode is one participant's hot machine; inc is the running process.
type HotNode struct {
	Idx      int
	Name     string
	Priv     ed25519.PrivateKey
	Pub      ed25519.PublicKey
	StateDir string
	Handle   *BoardHandle
	// AltStorage, when set, is the board connection the next incarnation uses
	// instead of Handle (frozen logs for replay comparisons)
	AltStorage storage.Storage
	ks         *memKeyStore
	inc        *Incarnation
	Restarts   int
	Panics     []string // non-sentinel panics of any task of this node
	// PollerEnded counts the times Poll() ended by itself (returned an error or
	// panicked) - in the daemon that is the end of the process
	PollerEnded int
	// what was durable when the last incarnation died (read from its LevelDB
	// before the handle is closed)
	Deaths      int
	DeadPending map[string]string
	DeadDeleted map[string]bool
	DeadOffset  uint64
}

// Incarnation is one process lifetime of a hot node.
type Incarnation struct {
	real   *state.LevelDBState
	gs     *gateState
	Svc    node.NodeService
	API    http.Handler
	FSM    fsmservice.FSMService
	Ops    operation.OperationService
	Sigs   signature.SignatureService
	Logger *recLogger
	ctx    context.Context
	cancel context.CancelFunc
	Poller *Task
}

func (n *HotNode) Inc() *Incarnation { return n.inc }
func (n *HotNode) Up() bool          { return n.inc != nil }

// AddNode creates a hot node with a key pair derived from the run seed.
func (w *World) AddNode(name string) *HotNode {
	idx := len(w.Nodes)
	seed := make([]byte, ed25519.SeedSize)
	r := w.Tape.Sub(0x1000 + uint64(idx))
	for i := range seed {
		seed[i] = byte(r.Next())
	}
	priv := ed25519.NewKeyFromSeed(seed)
	n := &HotNode{
		Idx:      idx,
		Name:     name,
		Priv:     priv,
		Pub:      priv.Public().(ed25519.PublicKey),
		StateDir: w.Path(fmt.Sprintf("hot%d_state", idx)),
		ks:       &memKeyStore{keys: map[string]*keystore.KeyPair{}},
	}
	n.Handle = w.Board.Handle(idx)
	_ = n.ks.PutKeys(name, &keystore.KeyPair{Pub: n.Pub, Priv: n.Priv})
	w.Nodes = append(w.Nodes, n)
	return n
}

// StartNode builds a process incarnation on the node's state directory with the
// production constructor sequence (services.CreateServiceProviderWithCfg,
// cmd/dc4bc_d) and starts the real Poll loop as a task.
func (w *World) StartNode(n *HotNode) error {
	if n.inc != nil {
		return fmt.Errorf("node %s already running", n.Name)
	}
	real, err := state.NewLevelDBState(n.StateDir, Topic)
	if err != nil {
		return fmt.Errorf("NewLevelDBState: %w", err)
	}
	gs := &gateState{w: w, node: n.Idx, real: real}
	lg := &recLogger{name: n.Name}
	cfg := &config.Config{
		Username:           n.Name,
		HttpApiConfig:      &config.HttpApiConfig{ListenAddr: "sim"},
		KafkaStorageConfig: &config.KafkaStorageConfig{Topic: Topic},
	}
	var stg storage.Storage = n.Handle
	if n.AltStorage != nil {
		stg = n.AltStorage
	}
	sp := services.ServiceProvider{}
	sp.SetStorage(stg)
	sp.SetKeyStore(n.ks)
	sp.SetLogger(lg)
	sp.SetState(gs)
	sigRepo := sigrepo.NewSignatureRepo(gs)
	opRepo, err := oprepo.NewOperationRepo(gs, Topic)
	if err != nil {
		real.SimClose()
		return fmt.Errorf("NewOperationRepo: %w", err)
	}
	sp.SetFSMService(fsmservice.NewFSMService(gs, stg, Topic))
	sp.SetSignatureService(signature.NewSignatureService(sigRepo))
	sp.SetOperationService(operation.NewOperationService(opRepo))
	ctx, cancel := context.WithCancel(context.Background())
	svc, err := node.NewNode(ctx, cfg, &sp)
	if err != nil {
		cancel()
		real.SimClose()
		return fmt.Errorf("NewNode: %w", err)
	}
	api := http_api.NewRESTApi(cfg, svc, &sp)
	inc := &Incarnation{
		real: real, gs: gs, Svc: svc, API: api.SimHandler(),
		FSM: sp.GetFSMService(), Ops: sp.GetOperationService(), Sigs: sp.GetSignatureService(),
		Logger: lg, ctx: ctx, cancel: cancel,
	}
	n.inc = inc
	w.Log.Add("start %s restarts=%d", n.Name, n.Restarts)
	inc.Poller = w.Spawn(fmt.Sprintf("poll[%d]", n.Idx), n.Idx, -1, func() {
		_ = svc.Poll()
	})
	// let the process enter Poll (creates the ticker, blocks in select)
	w.Grant(inc.Poller)
	return nil
}

// stopNode is a clean stop (ctx cancel) when crash==false; the poller must not
// be inside a tick.
func (w *World) stopNode(n *HotNode, logIt bool) {
	if n.inc == nil {
		return
	}
	if logIt {
		w.Log.Add("stop %s", n.Name)
	}
	w.killNodeTasks(n.Idx, nil)
}

func (w *World) closeDeadNode(n *HotNode) {
	inc := n.inc
	if inc == nil {
		return
	}
	// the poller may be blocked in select on the ticker: ctx cancel ends it
	inc.cancel()
	w.settle()
	w.collectPanics(n)
	n.DeadPending, n.DeadDeleted = pendingRaw(inc)
	n.DeadOffset, _ = inc.real.LoadOffset()
	n.Deaths++
	_ = inc.real.SimClose()
	for _, db := range inc.gs.extra {
		_ = db.Close()
	}
	n.inc = nil
}

func (w *World) collectPanics(n *HotNode) {
	w.mu.Lock()
	defer w.mu.Unlock()
	for _, t := range w.tasks {
		if t.Node == n.Idx && t.panicV != nil {
			n.Panics = append(n.Panics, fmt.Sprintf("%s: %v @ %s", t.Name, t.panicV, panicSite(t.panicStack)))
			t.panicV = nil
		}
	}
}

// CrashNode kills the process now (between steps).
func (w *World) CrashNode(n *HotNode) {
	if n.inc == nil {
		return
	}
	w.Log.Add("kill %s", n.Name)
	w.killNodeTasks(n.Idx, nil)
}

// RestartNode restarts a stopped/crashed node on the same directory.
func (w *World) RestartNode(n *HotNode) error {
	n.Restarts++
	return w.StartNode(n)
}

// ---- in-process API calls ---------------------------------------------------

type APIResult struct {
	Code    int
	Body    []byte
	ErrMsg  string // error_message of the response, "" on success
	Result  json.RawMessage
	Crashed bool
	Panic   string
}

func (r *APIResult) OK() bool {
	return r != nil && !r.Crashed && r.Panic == "" && r.Code == 200 && r.ErrMsg == ""
}

// serve runs one request through the real router. It is called inside a task.
func (inc *Incarnation) serve(method, path string, body []byte) *APIResult {
	var req *http.Request
	if body != nil {
		req = httptest.NewRequest(method, path, bytes.NewReader(body))
		req.Header.Set("Content-Type", "application/json")
	} else {
		req = httptest.NewRequest(method, path, nil)
	}
	rec := httptest.NewRecorder()
	inc.API.ServeHTTP(rec, req)
	res := &APIResult{Code: rec.Code, Body: rec.Body.Bytes()}
	var env struct {
		ErrorMessage string          `json:"error_message"`
		Result       json.RawMessage `json:"result"`
	}
	if err := json.Unmarshal(res.Body, &env); err == nil {
		res.ErrMsg = env.ErrorMessage
		res.Result = env.Result
	} else if rec.Code != 200 {
		res.ErrMsg = string(res.Body)
	}
	if rec.Code != 200 && res.ErrMsg == "" {
		res.ErrMsg = fmt.Sprintf("http %d", rec.Code)
	}
	return res
}

// SpawnAPI starts one API request of node n as a task (parked at "start").
func (w *World) SpawnAPI(n *HotNode, label, method, path string, body []byte, out **APIResult) *Task {
	inc := n.inc
	return w.Spawn(fmt.Sprintf("api[%d].%s", n.Idx, label), n.Idx, -1, func() {
		*out = inc.serve(method, path, body)
	})
}

// CallAPI issues one local API request of node n and runs it to completion
// (step-atomic).
func (w *World) CallAPI(n *HotNode, label, method, path string, body []byte) *APIResult {
	if n.inc == nil {
		return &APIResult{Code: 0, ErrMsg: "node down", Crashed: true}
	}
	var res *APIResult
	t := w.SpawnAPI(n, label, method, path, body, &res)
	w.RunTask(t)
	return w.finishAPI(n, t, res)
}

func (w *World) finishAPI(n *HotNode, t *Task, res *APIResult) *APIResult {
	if !t.Done() {
		panic(fmt.Sprintf("api task %s blocked outside a gate", t.Name))
	}
	if t.crashed {
		return &APIResult{Crashed: true, ErrMsg: "process crashed"}
	}
	if t.panicV != nil {
		p := fmt.Sprintf("%v", t.panicV)
		n.Panics = append(n.Panics, fmt.Sprintf("%s: %s", t.Name, p))
		t.panicV = nil
		return &APIResult{Panic: p, ErrMsg: "panic: " + p}
	}
	if res == nil {
		return &APIResult{ErrMsg: "no response"}
	}
	return res
}

// ---- harness-side reads (scheduler goroutine; gates pass through) ----------

// PendingOps returns the node's pending operations sorted by (CreatedAt, ID).
func (n *HotNode) PendingOps() []*types.Operation {
	if n.inc == nil {
		return nil
	}
	m, err := n.inc.Ops.GetOperations()
	if err != nil {
		return nil
	}
	out := make([]*types.Operation, 0, len(m))
	for _, o := range m {
		out = append(out, o)
	}
	// ids hash the payload, and payloads containing ECIES ciphertexts are not
	// replay-stable (the product encrypts deals in Go map order, so which
	// deal gets which randomness varies); sort by stable fields first.
	sort.Slice(out, func(i, j int) bool {
		if !out[i].CreatedAt.Equal(out[j].CreatedAt) {
			return out[i].CreatedAt.Before(out[j].CreatedAt)
		}
		if out[i].DKGIdentifier != out[j].DKGIdentifier {
			return out[i].DKGIdentifier < out[j].DKGIdentifier
		}
		if out[i].Type != out[j].Type {
			return out[i].Type < out[j].Type
		}
		return out[i].ID < out[j].ID
	})
	return out
}

func (n *HotNode) Offset() uint64 {
	if n.inc == nil {
		return 0
	}
	o, _ := n.inc.real.LoadOffset()
	return o
}

func (n *HotNode) Dump(round string) *state_machines.FSMDump {
	if n.inc == nil {
		return nil
	}
	d, err := n.inc.FSM.GetFSMDump(&dto.DkgIdDTO{DkgID: round})
	if err != nil {
		return nil
	}
	return d
}

func (n *HotNode) RoundState(round string) string {
	d := n.Dump(round)
	if d == nil {
		return ""
	}
	return string(d.State)
}

func (n *HotNode) Snapshot() map[string][]byte {
	if n.inc == nil {
		return nil
	}
	s, _ := n.inc.real.SimSnapshot()
	return s
}

func q(s string) string { return url.QueryEscape(s) }
