package cluster

import (
	"bytes"
	"crypto/ed25519"
	"encoding/json"
	"fmt"
	"os"
	"strings"
	"time"

	"github.com/lidofinance/dc4bc/client/services/node"
	"github.com/lidofinance/dc4bc/client/types"
	spf "github.com/lidofinance/dc4bc/fsm/state_machines/signature_proposal_fsm"
	"github.com/lidofinance/dc4bc/fsm/types/requests"
	"github.com/lidofinance/dc4bc/storage"
)

// addReinitParticipant creates a brand-new hot node (new communication key,
// empty state) with the old user name and a brand-new airgapped machine built
// from the old mnemonic, both attached to the new board.
func addReinitParticipant(w *World, old int) (int, error) {
	idx := len(w.Nodes)
	nd := w.AddNode(w.Nodes[old].Name)
	nd.Handle = w.Board.Handle(idx)
	a := &AirNode{w: w, Idx: idx, Dir: w.Path(fmt.Sprintf("air%d_db", idx)), ResultDir: w.Path(fmt.Sprintf("air%d_results", idx)),
		Mnemonic: w.Airs[old].Mnemonic, Password: []byte(fmt.Sprintf("new-pw-%d", idx))}
	_ = os.MkdirAll(a.ResultDir, 0o755)
	for len(w.Airs) < idx {
		w.Airs = append(w.Airs, nil)
	}
	w.Airs = append(w.Airs, a)
	if err := a.Open(true); err != nil {
		return idx, err
	}
	if w.SetSeedTwice {
		// the operator repeats the restore step (set_seed = SetBaseSeed + GenerateKeys)
		// on the machine that already runs on that seed
		if err := a.M.SetBaseSeed(a.Mnemonic); err != nil {
			return idx, err
		}
		if err := a.M.GenerateKeys(); err != nil {
			return idx, err
		}
		w.Stats.Fault("mnemonic-entered-twice")
	}
	return idx, w.StartNode(nd)
}

// runC20 runs an original ceremony, dumps the board, and reinitialises fresh
// nodes and machines from the dump. advMode: "" (C20 itself), "c09" or "c10":
// after the reinitialisation an adversary injects unauthenticated / foreign
// variants of genuine messages of a signing batch (these parts belong to the
// C09 and C10 checks: verification must be back on after a reinit).
func runC20(w *World, tier string, advMode string) (bool, interface{}) {
	prop := map[string]string{"": "C20", "c09": "C09", "c10": "C10", "c04": "C04", "c14": "C14", "c14rt": "C14", "c02": "C02", "c15": "C15", "c01": "C01"}[advMode]
	n, t := pickNT(w, tier)
	if n > 4 && tier != "thorough" {
		n = 4
		if t > n {
			t = n
		}
	}
	c := NewCluster(w, n)
	c.L.Faults.ShortReads = w.Tape.Bool(1, 2, "shortReads")
	c.L.Faults.PermuteResults = true
	c.L.Faults.BoardDownAtSubmit = w.Tape.Bool(1, 2, "boardOutages") // single submissions refused by the board; operators submit again
	members := AllMembers(n)
	round, rep := c.StartDKG(w.Tape.Choose(n, "proposer"), t, members)
	if !rep.OK() {
		w.Fail(prop, "startdkg-rejected", rep.ErrMsg)
		return false, nil
	}
	// junk on the original board: duplicates of genuine messages and a stranger's message
	forgedInLog := false
	junk := w.Tape.Bool(1, 2, "junk")
	if junk {
		cnt := 0
		w.Board.PreAppend = append(w.Board.PreAppend, func(m storage.Message, by int) {
			if by < 0 || cnt >= 3 || m.Event == string(spf.EventInitProposal) || !w.Tape.Bool(1, 6, "dup?") {
				return
			}
			cnt++
			if advMode == "" && m.Event == "event_dkg_commit_confirm_received" && w.Tape.Bool(1, 2, "forgedFailureReport") {
				// junk the original nodes refuse: a failure report in the sender's name that is
				// not signed with the sender's key, right in front of its genuine contribution
				var g struct{ ParticipantId int }
				_ = json.Unmarshal(m.Data, &g)
				x := storage.Message{DkgRoundID: m.DkgRoundID, Event: "event_dkg_commit_confirm_canceled_by_error", SenderAddr: m.SenderAddr}
				x.Data, _ = json.Marshal(map[string]interface{}{"ParticipantId": g.ParticipantId, "Error": "forged failure report", "CreatedAt": time.Now()})
				x.Signature = ed25519.Sign(freshKey(w, 4242), x.Bytes())
				w.Board.InjectMsg(x, &Inject{Kind: "junk-forged-failure-report"})
				w.Stats.Fault("junk-in-original-log")
				w.Stats.Fault("forged-message-in-original-log")
				forgedInLog = true
				return
			}
			if w.Tape.Bool(1, 2, "dupOrStranger") {
				w.Board.InjectMsg(m, &Inject{Kind: "duplicate"}) // the genuine message lands twice
			} else {
				x := m
				x.SenderAddr = "mallory"
				x.Event = "event_unknown"
				w.Board.InjectMsg(x, &Inject{Kind: "junk"})
			}
			w.Stats.Fault("junk-in-original-log")
		})
	}
	if !c.RunDKG(round, members, 500*n) {
		return false, fmt.Sprintf("original ceremony did not complete: %v", states(c, round))
	}
	signedBefore := w.Tape.Bool(1, 2, "signBeforeDump")
	if signedBefore {
		before := len(c.Tr.Order)
		c.ProposeFiles(w.Tape.Choose(n, "proposer"), round, map[string][]byte{"old": []byte("signed before the dump")})
		c.L.RunUntil(func() bool {
			return len(c.Tr.Order) > before && c.Tr.AllHaveBatch(c.Tr.LastBatch(), members) && c.AllInState(round, StIdle, members)
		}, 300*n)
	}
	c.L.Quiesce(6)
	w.Board.PreAppend = nil
	// ---- what the original ceremony produced -----------------------------------
	origKey, err := w.GroupKey(round)
	if err != nil {
		return false, "no group key after the original ceremony"
	}
	origShares := map[int]string{}
	for i := 0; i < n; i++ {
		origShares[i] = shareOf(w.Airs[i], round)
	}
	origDump := w.Nodes[0].Dump(round)
	if origDump == nil || origDump.Payload.DKGProposalPayload == nil {
		return false, "no dump"
	}
	origPoly := append([]byte(nil), origDump.Payload.DKGProposalPayload.PubPolyBz...)
	origIDs := origDump.Payload.IDs
	oldMsgs := append([]storage.Message(nil), w.Board.Msgs...)
	for i := 0; i < n; i++ {
		w.stopNode(w.Nodes[i], true)
		w.Airs[i].close()
	}
	// ---- the reinit file ---------------------------------------------------------
	variant014 := w.Tape.Bool(1, 3, "log-0.1.4")
	if variant014 {
		// a 0.1.4 log has no self-confirmation deal messages
		var f []storage.Message
		for _, m := range oldMsgs {
			if m.Event == "event_dkg_deal_confirm_received" {
				var req requests.DKGProposalDealConfirmationRequest
				if json.Unmarshal(m.Data, &req) == nil && string(req.Deal) == "self-confirm" {
					continue
				}
			}
			if m.Event == "event_dkg_master_key_confirm_received" {
				// ... and its key announcements carry no public polynomial: the answer to
				// the reinit operation is the only source of it
				var req requests.DKGProposalMasterKeyConfirmationRequest
				if json.Unmarshal(m.Data, &req) == nil {
					req.PubPolyBz = nil
					m.Data, _ = json.Marshal(req)
				}
			}
			f = append(f, m)
		}
		oldMsgs = f
		w.Stats.Fault("log-without-self-confirmations")
	}
	// the dump is old: the reinitialisation happens long after the ceremony
	if w.Tape.Bool(1, 3, "oldDump") {
		w.Advance([]time.Duration{8 * 24 * time.Hour, 45 * 24 * time.Hour, 4 * 365 * 24 * time.Hour}[w.Tape.Choose(3, "dumpAge")])
		w.Stats.Fault("clock-jump-before-reinit")
	}
	// the dump's record identifiers: a file board stamps a uuid on every record,
	// a Kafka export carries none except on the records a node built itself
	// (proposals); some exports have none at all
	switch w.Tape.Choose(3, "dumpIds") {
	case 1:
		for i := range oldMsgs {
			if oldMsgs[i].Event != "event_sig_proposal_init" && oldMsgs[i].Event != "event_signing_start" {
				oldMsgs[i].ID = ""
			}
		}
		w.Stats.Fault("dump-with-kafka-style-record-ids")
	case 2:
		for i := range oldMsgs {
			oldMsgs[i].ID = ""
		}
		w.Stats.Fault("dump-without-record-ids")
	}
	// new world: new board, new nodes, new machines
	w.Board = newBoard(w)
	c2 := &Cer{W: w, L: NewLoop(w), N: n}
	c2.L.Faults = c.L.Faults
	c2.Tr = NewTracker(w)
	w.SetSeedTwice = w.Tape.Bool(1, 3, "setSeedTwice")
	newIdx := make([]int, n)
	newKeys := map[string][]byte{}
	// one participant is left out of the list of new communication keys (the file then carries
	// no key for it): from the reinitialisation on nothing signed in its name may be accepted,
	// least of all what is signed with its key from before
	noNewKey := -1
	if advMode == "c09" && w.Tape.Bool(1, 3, "participantWithoutNewKey") {
		noNewKey = w.Tape.Choose(n, "whoHasNoNewKey")
		w.Stats.Fault("participant-without-a-new-key-in-the-reinit-file")
	}
	for i := 0; i < n; i++ {
		idx, err := addReinitParticipant(w, i)
		if err != nil {
			w.Fail(prop, "reinit-setup-failed", err.Error())
			return false, nil
		}
		newIdx[i] = idx
		if i != noNewKey {
			newKeys[w.Nodes[idx].Name] = w.Nodes[idx].Pub
		}
		op := &Operator{L: c2.L, Idx: idx}
		c2.Ops = append(c2.Ops, op)
		c2.L.Actors = append(c2.L.Actors, op)
	}
	reDKG, err := types.GenerateReDKGMessage(oldMsgs, newKeys)
	if err != nil {
		w.Fail("C20", "reinit-file-generation-failed", err.Error())
		return false, nil
	}
	adapted := variant014 || w.Tape.Bool(1, 3, "adaptAnyway")
	if variant014 {
		reDKG, err = node.GetAdaptedReDKG(reDKG)
		if err != nil {
			w.Fail("C20", "reinit-adaptation-failed", err.Error())
			return false, nil
		}
	}
	_ = adapted
	if advMode == "c01" {
		// the threshold written in the reinit file's header is not the round's (a hand-made
		// or edited file; the header only feeds the hash the operators compare): whatever is
		// signed after the reinitialisation still has to verify under the original key
		reDKG.Threshold = []int{max(1, t-1), 1, 0, t + 1, n + 3}[w.Tape.Choose(5, "headerThreshold")]
		w.Stats.Fault("reinit-file-header-threshold-edited")
	}
	reBz, _ := json.Marshal(reDKG)
	if advMode == "" {
		checkReinitHash(w, reBz)
		if w.Failed() {
			return true, nil
		}
	}
	poster := newIdx[w.Tape.Choose(n, "poster")]
	rep = w.CallAPI(w.Nodes[poster], "reinitDKG", "POST", "/reinitDKG", reBz)
	if !rep.OK() {
		w.Fail("C20", "reinit-request-rejected", rep.ErrMsg)
		return true, nil
	}
	if advMode == "c14rt" {
		// request kind "finishing a reinitialisation" as a round trip inside the tick that
		// handles the reinit message: the operator sees the reinit operation in the pool
		// while the poller has not finished that message yet
		vi := w.Tape.Choose(n, "victim")
		v := w.Nodes[newIdx[vi]]
		if w.Tape.Bool(1, 3, "secondRoundWaiting") {
			w.Advance(2e9)
			other := newIdx[(vi+1)%n]
			payloadB := w.StartDKGPayload(2+w.Tape.Choose(n-1, "tB"), newIdx)
			if rp := w.CallAPI(w.Nodes[other], "startDKG", "POST", "/startDKG", payloadB); rp.OK() {
				w.Stats.Fault("multi-round")
			}
		}
		return roundTripAndJudge(w, v, w.Airs[newIdx[vi]], tier, n, t, fmt.Sprintf("log-0.1.4=%v", variant014))
	}
	// ---- drive the reinitialisation ------------------------------------------------
	hashes := map[string]bool{}
	for _, op := range c2.Ops {
		op.OnResult = func(o *types.Operation, result []byte, rp *APIResult) {
			if string(o.Type) == string(types.ReinitDKG) {
				hashes[fmt.Sprintf("%x", o.ExtraData)] = true
			}
		}
	}
	if advMode == "c15" && w.Tape.Bool(1, 2, "alterReinitAnswerHeader") {
		// An answer is matched to its operation by identifier, type and request payload; the
		// round named in the answer's header is not among them (the carrier may have altered
		// it, or the file belongs to another round's folder). Whatever the header says, the
		// answer to the reinit operation either finishes the round the node issued the
		// operation for, or is refused without effect - it never touches another round.
		vi := w.Tape.Choose(n, "c15victim")
		v := w.Nodes[newIdx[vi]]
		kind := []string{"another-live-round", "another-live-round", "unused-id", "own-id-padded"}[w.Tape.Choose(4, "headerKind")]
		roundB := ""
		if kind == "another-live-round" {
			w.Advance(2e9)
			payloadB := w.StartDKGPayload(2+w.Tape.Choose(n-1, "tB"), newIdx)
			if rp := w.CallAPI(w.Nodes[newIdx[(vi+1)%n]], "startDKG", "POST", "/startDKG", payloadB); !rp.OK() {
				return false, "second round not started: " + rp.ErrMsg
			}
			roundB = RoundID(payloadB)
			w.Stats.Fault("multi-round")
		}
		var held []byte
		judged := false
		c2.Ops[vi].Submit = func(o *types.Operation, body []byte) *APIResult {
			if !judged && string(o.Type) == string(types.ReinitDKG) {
				held = body
				return &APIResult{ErrMsg: "held: the header is altered first"}
			}
			return w.CallAPI(v, "submit", "POST", "/handleProcessedOperationJSON", body)
		}
		// round B may be anywhere between its opening proposal and the end of its key generation
		more := w.Tape.Choose(12*n, "roundBProgress")
		c2.L.RunUntil(func() bool {
			if held == nil || (roundB != "" && v.Dump(roundB) == nil) {
				return false
			}
			more--
			return more < 0
		}, 200*n)
		if held == nil || (roundB != "" && v.Dump(roundB) == nil) {
			return false, "reinit result / second round never became ready"
		}
		var ro types.Operation
		if err := json.Unmarshal(held, &ro); err != nil {
			return false, "held result not JSON"
		}
		genuineID := ro.DKGIdentifier
		switch kind {
		case "another-live-round":
			ro.DKGIdentifier = roundB
		case "unused-id":
			ro.DKGIdentifier = freshRoundID(w, 77)
		case "own-id-padded":
			ro.DKGIdentifier = " " + ro.DKGIdentifier + "\n"
		}
		alt, _ := json.Marshal(ro)
		w.Stats.Fault("reinit-answer-header-names-" + kind)
		before := v.Snapshot()
		blen := w.Board.Len()
		rp := w.CallAPI(v, "submit", "POST", "/handleProcessedOperationJSON", alt)
		judged = true
		if rp.Panic != "" {
			w.Fail("C15", "reinit-answer-with-altered-header-crashes-handler/"+kind, fmt.Sprintf("node %s: the answer to its reinit operation, header naming %s, made the handler panic: %.200s", v.Name, kind, rp.Panic))
			return true, nil
		}
		after := v.Snapshot()
		rb, ra := roundsBytes(before, genuineID), roundsBytes(after, genuineID)
		for k, bz := range rb {
			if !bytes.Equal(bz, ra[k]) {
				w.Fail("C15", "reinit-answer-changed-another-round/"+kind, fmt.Sprintf("node %s: the answer to the reinit operation of round %.8s (header: %s) changed the stored round %.8s (accepted=%v)", v.Name, genuineID, kind, k, rp.OK()))
				return true, nil
			}
		}
		if len(ra) != len(rb) {
			w.Fail("C15", "reinit-answer-created-another-round/"+kind, fmt.Sprintf("node %s: %d stored rounds besides the reinitialised one before the answer, %d after", v.Name, len(rb), len(ra)))
			return true, nil
		}
		if w.Board.Len() != blen {
			w.Fail("C15", "reinit-answer-posted-messages/"+kind, fmt.Sprintf("the answer to a reinit operation carries no messages; the board grew by %d", w.Board.Len()-blen))
			return true, nil
		}
		if !rp.OK() {
			// refused: nothing may have happened, and the unaltered file still works
			for k, bz := range before {
				if !bytes.Equal(bz, after[k]) {
					w.Fail("C15", "rejected-result-had-effects/reinit-header-"+kind, fmt.Sprintf("node %s refused the answer (%s) but %s changed", v.Name, rp.ErrMsg, canonKey(k)))
					return true, nil
				}
			}
			if rp2 := w.CallAPI(v, "submit", "POST", "/handleProcessedOperationJSON", held); !rp2.OK() {
				w.Fail("C15", "genuine-reinit-answer-refused-after-altered-one/"+kind, rp2.ErrMsg)
				return true, nil
			}
		}
		d := v.Dump(genuineID)
		if d == nil || d.Payload.DKGProposalPayload == nil || !bytes.Equal(d.Payload.DKGProposalPayload.PubPolyBz, ro.ExtraData) {
			w.Fail("C15", "reinit-answer-accepted-but-round-not-finished/"+kind, fmt.Sprintf("node %s accepted the answer to its reinit operation (header: %s); the round it issued the operation for does not retain the answer's polynomial", v.Name, kind))
			return true, nil
		}
		for _, o := range v.PendingOps() {
			if o.ID == ro.ID {
				w.Fail("C15", "answered-operation-still-pending/reinit-header-"+kind, "the reinit operation is still offered after its answer was accepted")
				return true, nil
			}
		}
		return true, map[string]interface{}{"n": n, "t": t, "adv": advMode, "altered_header": kind, "accepted_as_is": rp.OK()}
	}
	if advMode == "c14" {
		// request kind "finishing a reinitialisation": node v's reinit_dkg result is ready but held
		// back; meanwhile a new round is opened on the same (new) nodes, whose opening proposal waits
		// for v's stalled poller; then the submission races with the tick
		vi := w.Tape.Choose(n, "victim")
		v := w.Nodes[newIdx[vi]]
		var prepared []byte
		c2.Ops[vi].Submit = func(o *types.Operation, body []byte) *APIResult {
			if prepared == nil && string(o.Type) == string(types.ReinitDKG) {
				prepared = body
				return &APIResult{ErrMsg: "held for the race"}
			}
			return w.CallAPI(v, "submit", "POST", "/handleProcessedOperationJSON", body)
		}
		c2.L.RunUntil(func() bool { return prepared != nil }, 200*n)
		if prepared == nil {
			return false, "reinit result never became ready"
		}
		c2.L.PausedPoll[newIdx[vi]] = true
		c2.L.PausedOp[newIdx[vi]] = true
		other := newIdx[(vi+1)%n]
		w.Advance(2e9)
		if w.Tape.Bool(1, 4, "reinitOfAnotherRoundWaiting") {
			// the message waiting for the victim is itself a reinitialisation - of another round
			// (the same log under another id, as for a second key set on the same board): its replay
			// saves a round after every embedded message while the request saves the first round
			idB := freshRoundID(w, 91)
			emb := make([]storage.Message, 0, len(reDKG.Messages))
			for _, m := range reDKG.Messages {
				x := m
				x.DkgRoundID = idB
				emb = append(emb, x)
			}
			w.Board.Append(other, reinitEnvelope(w, other, idB, reDKG.Threshold, reDKG.Participants, emb))
			w.Stats.Fault("reinit-of-another-round-waiting")
			// the operation the tick creates embeds the operations of the replay, which carry the
			// time of that replay: its identifier differs between executions of the same order
			maskOpIDs = true
			defer func() { maskOpIDs = false }()
			if w.Board.Len()-int(v.Offset()) < 1 {
				return false, "nothing waiting for the victim"
			}
			return raceAndJudge(w, v, &raceSpec{kind: "submit:reinit_dkg", method: "POST", path: "/handleProcessedOperationJSON", body: prepared, msgs: 1}, tier, n, t)
		}
		if w.Tape.Bool(1, 2, "sameRoundMessageWaiting") {
			// a peer that has already finished its own reinitialisation proposes a batch for the
			// SAME round: the victim's tick applies a message of the very round the request updates
			c2.L.RunUntil(func() bool {
				d := w.Nodes[other].Dump(round)
				return d != nil && string(d.State) == StIdle && len(w.Nodes[other].PendingOps()) == 0
			}, 200*n)
			if rp := c2.ProposeFiles(other, round, map[string][]byte{"c14 same round": []byte("proposed while a peer still finishes its reinitialisation")}); !rp.OK() {
				return false, "peer could not propose: " + rp.ErrMsg
			}
			w.Stats.Fault("message-of-the-reinitialised-round-waiting")
			waiting := w.Board.Len() - int(v.Offset())
			if waiting < 1 {
				return false, "nothing waiting for the victim"
			}
			if waiting > 3 {
				waiting = 3
			}
			return raceAndJudge(w, v, &raceSpec{kind: "submit:reinit_dkg", method: "POST", path: "/handleProcessedOperationJSON", body: prepared, msgs: waiting}, tier, n, t)
		}
		payloadB := w.StartDKGPayload(2+w.Tape.Choose(n-1, "tB"), newIdx)
		if rp := w.CallAPI(w.Nodes[other], "startDKG", "POST", "/startDKG", payloadB); !rp.OK() {
			return false, "second round not started: " + rp.ErrMsg
		}
		w.Stats.Fault("multi-round")
		c2.L.RunUntil(func() bool { return false }, w.Tape.Choose(6*n, "moreSteps"))
		waiting := w.Board.Len() - int(v.Offset())
		if waiting < 1 {
			return false, "nothing waiting for the victim"
		}
		if waiting > 3 {
			waiting = 3
		}
		return raceAndJudge(w, v, &raceSpec{kind: "submit:reinit_dkg", method: "POST", path: "/handleProcessedOperationJSON", body: prepared, msgs: waiting}, tier, n, t)
	}
	c2.L.RunUntil(func() bool {
		for _, idx := range newIdx {
			nd := w.Nodes[idx]
			d := nd.Dump(round)
			if d == nil || string(d.State) != StIdle || len(nd.PendingOps()) > 0 {
				return false
			}
		}
		return true
	}, 200*n)
	c2.L.Quiesce(6)
	if advMode == "" {
		for i, idx := range newIdx {
			nd := w.Nodes[idx]
			d := nd.Dump(round)
			if d == nil {
				w.Fail("C20", "round-missing-after-reinit", fmt.Sprintf("node %s has no round %.8s after the reinitialisation", nd.Name, round))
				break
			}
			if string(d.State) != StIdle {
				sigState := string(d.State)
				if forgedInLog {
					sigState = "forged-failure-report-in-the-log/" + sigState
				}
				w.Fail("C20", "not-signing-ready-after-reinit/"+sigState, fmt.Sprintf("node %s is in %s after the reinitialisation (log-0.1.4=%v junk=%v forged-message-in-log=%v signedBefore=%v)", nd.Name, d.State, variant014, junk, forgedInLog, signedBefore))
				if forgedInLog {
					// (a recorded finding does not end the run, but nothing further can be judged
					// on a round the forged report has cancelled)
					return true, map[string]interface{}{"n": n, "t": t, "forged_message_in_log": true}
				}
				break
			}
			if d.Payload.Threshold != t || len(d.Payload.IDs) != n {
				w.Fail("C20", "participants-or-threshold-differ", fmt.Sprintf("node %s: threshold %d (want %d), %d participants (want %d)", nd.Name, d.Payload.Threshold, t, len(d.Payload.IDs), n))
				break
			}
			for name, id := range origIDs {
				if d.Payload.IDs[name] != id {
					w.Fail("C20", "participants-or-threshold-differ", fmt.Sprintf("participant %s has id %d, originally %d", name, d.Payload.IDs[name], id))
				}
			}
			if !bytes.Equal(d.Payload.DKGProposalPayload.PubPolyBz, origPoly) {
				w.Fail("C20", "public-polynomial-differs-after-reinit", fmt.Sprintf("node %s retains a public polynomial different from the original ceremony's", nd.Name))
				break
			}
			if got := shareOf(w.Airs[idx], round); got != origShares[i] {
				w.Fail("C20", "share-differs-after-reinit", fmt.Sprintf("machine of %s: share %q after the reinitialisation, originally %q", nd.Name, got, origShares[i]))
				break
			}
			if !bytes.Equal(d.Payload.PubKeys[nd.Name], nd.Pub) {
				w.Fail("C20", "new-communication-key-not-installed", fmt.Sprintf("node %s: the round does not carry its new communication key", nd.Name))
				break
			}
		}
		if len(hashes) > 1 && !w.Failed() {
			w.Fail("C20", "confirmation-hash-differs-between-nodes", fmt.Sprintf("%d different hashes shown for the same file", len(hashes)))
		}
	}
	if w.Failed() {
		return true, nil
	}
	if advMode == "c15" {
		// "every result the airgapped machine can produce survives the way back": the
		// one result that carries ExtraData is the answer to the reinit operation; what
		// the node retains afterwards must be what the result file carried
		judgedC15 := 0
		for k, idx := range newIdx {
			for id, body := range c2.Ops[k].results {
				var ro types.Operation
				if json.Unmarshal(body, &ro) != nil || string(ro.Type) != string(types.ReinitDKG) {
					continue
				}
				judgedC15++
				d := w.Nodes[idx].Dump(round)
				if d == nil || d.Payload.DKGProposalPayload == nil {
					w.Fail("C15", "reinit-result-lost/round-missing", fmt.Sprintf("node %d has no round after its reinit result %s was accepted", idx, id))
					break
				}
				if !bytes.Equal(d.Payload.DKGProposalPayload.PubPolyBz, ro.ExtraData) {
					w.Fail("C15", "result-field-lost-on-the-way-back/ExtraData", fmt.Sprintf("node %d accepted the result of its reinit operation; the file carried %d bytes of ExtraData, the node retains %d bytes", idx, len(ro.ExtraData), len(d.Payload.DKGProposalPayload.PubPolyBz)))
					break
				}
			}
		}
		return judgedC15 > 0, map[string]interface{}{"n": n, "t": t, "adv": advMode, "reinit_results_judged": judgedC15}
	}
	if advMode == "c02" {
		// "whenever a round reaches the signing-ready state on any node": also when it
		// gets there through a reinitialisation. Same invariant on key material as C02.
		ready := 0
		for _, idx := range newIdx {
			if w.Nodes[idx].RoundState(round) == StIdle {
				ready++
			}
		}
		if ready == 0 {
			return false, "no node signing-ready after the reinitialisation"
		}
		checked := checkKeyMaterial(w, round, newIdx, t, "C02")
		return checked, map[string]interface{}{"n": n, "t": t, "adv": advMode, "ready_after_reinit": ready}
	}
	// ---- signing afterwards: verifies under the ORIGINAL group key -------------------
	judged := 0
	var kinds []string
	if advMode != "" {
		budget := 2 + w.Tape.Choose(3, "mutants")
		w.Board.PreAppend = append(w.Board.PreAppend, func(m storage.Message, by int) {
			if by < 0 || len(kinds) >= budget || m.Event == "event_signing_start" || m.Event == string(types.SignatureReconstructed) || !w.Tape.Bool(1, 2, "inject?") {
				return
			}
			switch advMode {
			case "c09":
				kind := c09Kinds[w.Tape.Choose(len(c09Kinds), "kind")]
				x := mutateAuth(w, m, by, kind)
				if oldI := posOf(newIdx, by); oldI >= 0 && (oldI == noNewKey || w.Tape.Bool(1, 4, "oldKey?")) {
					// the genuine payload under a signature made with the sender's key from BEFORE
					// the reinitialisation (the key whose loss or exposure made it necessary)
					kind = "signed-with-the-senders-key-from-before-the-reinitialisation"
					x = m
					x.Signature = ed25519.Sign(w.Nodes[oldI].Priv, x.Bytes())
				}
				if bytes.Equal(x.Data, m.Data) && bytes.Equal(x.Signature, m.Signature) && x.SenderAddr == m.SenderAddr {
					return
				}
				kinds = append(kinds, kind+"@"+m.Event)
				w.Stats.Fault("mutate-after-reinit")
				w.Board.InjectMsg(x, &Inject{Kind: kind, Expect: "reject"})
			case "c10":
				pid, ok := pidOf(m.Data)
				if !ok {
					return
				}
				p := (pid + 1 + w.Tape.Choose(n-1, "claimed")) % n
				x := m
				x.Data = pidRe.ReplaceAll(m.Data, []byte(fmt.Sprintf(`"ParticipantId":%d`, p)))
				x.Signature = ed25519.Sign(w.Nodes[by].Priv, x.Bytes())
				kinds = append(kinds, "impersonation@"+m.Event)
				w.Stats.Fault("impersonation-after-reinit")
				w.Board.InjectMsg(x, &Inject{Kind: "impersonation", Detail: fmt.Sprintf("%d", p)})
			}
		})
		c2.L.OnInjectedConsumed = func(nd *HotNode, off uint64, inj *Inject, before, after map[string][]byte, failed bool, pan string) {
			judged++
			if advMode == "c09" {
				if d := snapDiff(before, after); len(d) > 0 || !failed {
					w.Fail("C09", "after-reinit/state-changed-by-unauthenticated-message/"+inj.Kind, fmt.Sprintf("after a reinitialisation %s consumed a %s variant of %s: rejected=%v, changed keys %v", nd.Name, inj.Kind, inj.Event, failed, d))
				}
				return
			}
			m := w.Board.Msgs[off]
			var p int
			fmt.Sscanf(inj.Detail, "%d", &p)
			if rb, ra := participantRecords(before, m.DkgRoundID, p), participantRecords(after, m.DkgRoundID, p); rb != ra {
				w.Fail("C10", "after-reinit/participant-record-changed-by-foreign-message/"+m.Event, fmt.Sprintf("after a reinitialisation %s: a message signed by %s naming participant %d changed that participant's record", nd.Name, m.SenderAddr, p))
			}
		}
	}
	if advMode == "" && w.Tape.Bool(1, 2, "machinesRestartBeforeSigning") {
		// the reinitialised state is durable: machines that are switched off and on
		// again (with the prescribed log replay) between the reinitialisation and
		// the signing still sign
		for _, idx := range newIdx {
			if !w.Tape.Bool(2, 3, "restartThis") {
				continue
			}
			if err := w.Airs[idx].Restart([]string{round}); err != nil {
				w.Fail("C20", "machine-unusable-after-restart-following-reinit", fmt.Sprintf("machine of %s, restarted after the reinitialisation: %v", w.Nodes[idx].Name, err))
				return true, nil
			}
			w.Stats.Fault("machine-restart-after-reinit")
			if got := shareOf(w.Airs[idx], round); got == "" {
				w.Fail("C20", "share-lost-by-restart-after-reinit", fmt.Sprintf("machine of %s holds no share of the round after a restart", w.Nodes[idx].Name))
				return true, nil
			}
		}
	}
	before := len(c2.Tr.Order)
	c2.ProposeFiles(newIdx[w.Tape.Choose(n, "proposer2")], round, map[string][]byte{"after reinit": []byte("signed after the reinitialisation")})
	c2.L.RunUntil(func() bool {
		return len(c2.Tr.Order) > before && c2.Tr.AllHaveBatch(c2.Tr.LastBatch(), newIdx) && c2.AllInState(round, StIdle, newIdx)
	}, 300*n)
	c2.L.Quiesce(6)
	if w.Failed() {
		return true, nil
	}
	if len(c2.Tr.Order) <= before || !c2.Tr.AllHaveBatch(c2.Tr.LastBatch(), newIdx) {
		if advMode == "" {
			w.Fail("C20", "signing-after-reinit-incomplete", fmt.Sprintf("states %v", statesOf(w, newIdx, round)))
		}
		return true, map[string]interface{}{"n": n, "t": t, "adv": advMode, "injected": kinds}
	}
	bi := c2.Tr.LastBatch()
	for _, idx := range newIdx {
		sigs := w.Nodes[idx].Signatures(round)[bi.BatchID]
		for _, em := range bi.Msgs {
			for _, e := range sigs[em.MessageID] {
				if len(e.Signature) == 0 {
					continue
				}
				judged++
				if err := VerifyETH(origKey, em.Payload, e.Signature); err != nil && advMode == "" {
					w.Fail("C20", "signature-after-reinit-invalid-under-original-key", fmt.Sprintf("node %s: %v", w.Nodes[idx].Name, err))
				} else if err != nil && advMode == "c01" {
					w.Fail("C01", "invalid-signature/after-reinit", fmt.Sprintf("node %s stores, after a reinitialisation from a file whose header names threshold %d (the round's is %d), a signature that does not verify under the group key: %v", w.Nodes[idx].Name, reDKG.Threshold, t, err))
				}
			}
		}
	}
	if advMode == "c04" {
		// everything the reinitialised machines produced (incl. the reinit_dkg result) is scanned
		var airs []*AirNode
		for _, idx := range newIdx {
			airs = append(airs, w.Airs[idx])
		}
		taintScan(w, airs)
		w.Stats.Probe("taint-scan-after-reinit")
	}
	w.Abstract[fmt.Sprintf("log014=%v/junk=%v/signedBefore=%v", variant014, junk, signedBefore)] = true
	return judged > 0, map[string]interface{}{"n": n, "t": t, "log_0_1_4": variant014, "junk_in_log": junk, "signed_before_dump": signedBefore, "adv": advMode, "injected": kinds, "old_log_len": len(oldMsgs)}
}

func posOf(xs []int, v int) int {
	for i, x := range xs {
		if x == v {
			return i
		}
	}
	return -1
}

func statesOf(w *World, idx []int, round string) []string {
	var s []string
	for _, i := range idx {
		s = append(s, w.Nodes[i].RoundState(round))
	}
	return s
}

// checkReinitHash: every single-field edit of the reinit file changes the
// confirmation hash shown to the operators.
func checkReinitHash(w *World, file []byte) {
	base, err := types.CalcStartReInitDKGMessageHash(file)
	if err != nil {
		w.Fail("C20", "hash-of-genuine-file-fails", err.Error())
		return
	}
	var re types.ReDKG
	if json.Unmarshal(file, &re) != nil {
		return
	}
	edits := 0
	try := func(field string, edit func(r *types.ReDKG)) {
		var r types.ReDKG
		_ = json.Unmarshal(file, &r)
		edit(&r)
		b, _ := json.Marshal(r)
		if bytes.Equal(b, file) {
			return
		}
		h, err := types.CalcStartReInitDKGMessageHash(b)
		edits++
		if err == nil && bytes.Equal(h, base) {
			w.Fail("C20", "hash-ignores-"+field, fmt.Sprintf("a reinit file whose %s was changed in transit has the same confirmation hash", field))
		}
	}
	flip := func(b []byte) []byte {
		c := append([]byte(nil), b...)
		if len(c) == 0 {
			return []byte{1}
		}
		c[len(c)/2] ^= 1
		return c
	}
	pi := w.Tape.Choose(len(re.Participants), "participant")
	try("threshold", func(r *types.ReDKG) { r.Threshold++ })
	try("dkg-id", func(r *types.ReDKG) { r.DKGID = flipHex(r.DKGID) })
	try("participant-name", func(r *types.ReDKG) { r.Participants[pi].Name += "x" })
	try("participant-new-comm-key", func(r *types.ReDKG) { r.Participants[pi].NewCommPubKey = flip(r.Participants[pi].NewCommPubKey) })
	try("participant-old-comm-key", func(r *types.ReDKG) { r.Participants[pi].OldCommPubKey = flip(r.Participants[pi].OldCommPubKey) })
	try("participant-dkg-key", func(r *types.ReDKG) { r.Participants[pi].DKGPubKey = flip(r.Participants[pi].DKGPubKey) })
	if len(re.Messages) > 0 {
		mi := w.Tape.Choose(len(re.Messages), "message")
		try("message-payload", func(r *types.ReDKG) { r.Messages[mi].Data = flip(r.Messages[mi].Data) })
		try("message-signature", func(r *types.ReDKG) { r.Messages[mi].Signature = flip(r.Messages[mi].Signature) })
		try("message-sender", func(r *types.ReDKG) { r.Messages[mi].SenderAddr += "x" })
		try("message-recipient", func(r *types.ReDKG) { r.Messages[mi].RecipientAddr += "x" })
		try("message-event", func(r *types.ReDKG) { r.Messages[mi].Event += "x" })
		try("message-offset", func(r *types.ReDKG) { r.Messages[mi].Offset += 1 })
		try("message-dropped", func(r *types.ReDKG) { r.Messages = append(r.Messages[:mi:mi], r.Messages[mi+1:]...) })
		if len(re.Messages) > 1 {
			mj := (mi + 1) % len(re.Messages)
			try("messages-swapped", func(r *types.ReDKG) { r.Messages[mi], r.Messages[mj] = r.Messages[mj], r.Messages[mi] })
		}
	}
	w.Stats.ProbeN("hash-edits-checked", edits)
}

func init() {
	Register(&Scenario{Prop: "C20", Name: "C20", Run: func(w *World, tier string) (bool, interface{}) { return runC20(w, tier, "") }})
	Register(&Scenario{Prop: "C09", Name: "C09-reinit", Run: func(w *World, tier string) (bool, interface{}) { return runC20(w, tier, "c09") }})
	Register(&Scenario{Prop: "C10", Name: "C10-reinit", Run: func(w *World, tier string) (bool, interface{}) { return runC20(w, tier, "c10") }})
	Register(&Scenario{Prop: "C14", Name: "C14-reinit", Run: func(w *World, tier string) (bool, interface{}) { return runC20(w, tier, "c14") }})
	Register(&Scenario{Prop: "C14", Name: "C14-roundtrip-reinit", Run: func(w *World, tier string) (bool, interface{}) { return runC20(w, tier, "c14rt") }})
	Register(&Scenario{Prop: "C01", Name: "C01-reinit", Run: func(w *World, tier string) (bool, interface{}) { return runC20(w, tier, "c01") }})
	Register(&Scenario{Prop: "C15", Name: "C15-reinit", Run: func(w *World, tier string) (bool, interface{}) { return runC20(w, tier, "c15") }})
	Register(&Scenario{Prop: "C02", Name: "C02-reinit", Run: func(w *World, tier string) (bool, interface{}) { return runC20(w, tier, "c02") }})
	Register(&Scenario{Prop: "C04", Name: "C04-reinit", Run: func(w *World, tier string) (bool, interface{}) { return runC20(w, tier, "c04") }})
}

var _ = strings.Contains
