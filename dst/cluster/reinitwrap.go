package cluster

import (
	"bytes"
	"crypto/ed25519"
	"encoding/hex"
	"encoding/json"
	"errors"
	"fmt"
	"sort"

	"github.com/lidofinance/dc4bc/client/types"
	"github.com/lidofinance/dc4bc/fsm/fsm"
	spf "github.com/lidofinance/dc4bc/fsm/state_machines/signature_proposal_fsm"
	sif "github.com/lidofinance/dc4bc/fsm/state_machines/signing_proposal_fsm"
	"github.com/lidofinance/dc4bc/fsm/types/requests"
	"github.com/lidofinance/dc4bc/storage"
)

// The reinitialisation message is the second unauthenticated entry point of a
// node (next to the opening proposal): whoever can write to the board can post
// one, and the messages embedded in it are replayed with signature checking
// switched off. The helpers below build such envelopes for the adversaries of
// C09 (forgeries aimed at an existing round), C18 (malformed embedded input)
// and C08 (a rejected reinitialisation followed by a forgery).

// freshRoundID draws a round identifier nobody uses.
func freshRoundID(w *World, salt uint64) string {
	r := w.Tape.Sub(0xA000 + salt)
	b := make([]byte, 32)
	for i := range b {
		b[i] = byte(r.Next())
	}
	return hex.EncodeToString(b)
}

// reinitParticipants derives the participants list of a reinit file from the
// opening proposal of the given round on the board (keys unchanged).
func reinitParticipants(w *World, round string) ([]types.Participant, int) {
	for _, m := range w.Board.Msgs {
		if m.DkgRoundID != round || m.Event != string(spf.EventInitProposal) {
			continue
		}
		var req requests.SignatureProposalParticipantsListRequest
		if json.Unmarshal(m.Data, &req) != nil {
			continue
		}
		var ps []types.Participant
		for _, p := range req.Participants {
			if p == nil {
				continue
			}
			ps = append(ps, types.Participant{DKGPubKey: p.DkgPubKey, OldCommPubKey: p.PubKey, NewCommPubKey: p.PubKey, Name: p.Username})
		}
		return ps, req.SigningThreshold
	}
	return nil, 0
}

// reinitEnvelope builds a reinit_dkg board message for round id `id` carrying
// the given embedded messages. It is signed by node `by` (the signature of a
// reinit message is not checked by the product; it is there so that nothing
// but the embedded content is unusual).
func reinitEnvelope(w *World, by int, id string, threshold int, parts []types.Participant, embedded []storage.Message) storage.Message {
	data, _ := json.Marshal(types.ReDKG{DKGID: id, Threshold: threshold, Participants: parts, Messages: embedded})
	return reinitEnvelopeRaw(w, by, id, data)
}

func reinitEnvelopeRaw(w *World, by int, id string, data []byte) storage.Message {
	m := storage.Message{DkgRoundID: id, Event: string(types.ReinitDKG), Data: data, SenderAddr: w.Nodes[by].Name}
	m.Signature = ed25519.Sign(w.Nodes[by].Priv, m.Bytes())
	return m
}

// relabelledLog returns the genuine (non-injected) board messages of `round`
// that precede the end of the board, with their round id rewritten to `id`:
// a replayable log that opens a brand-new round in the state `round` is in.
func relabelledLog(w *World, round, id string) []storage.Message {
	var out []storage.Message
	for _, m := range w.Board.Msgs {
		if m.DkgRoundID != round || w.Board.Injected[m.Offset] != nil {
			continue
		}
		if m.Event == string(sif.EventSigningStart) || m.Event == string(types.ReinitDKG) {
			break
		}
		x := m
		x.DkgRoundID = id
		x.Data = append([]byte(nil), m.Data...)
		x.Signature = append([]byte(nil), m.Signature...)
		out = append(out, x)
	}
	return out
}

// roundsBytes extracts the persisted dump of every round except the listed
// ones from a state snapshot (round id -> dump bytes).
func roundsBytes(snap map[string][]byte, except ...string) map[string][]byte {
	var all map[string][]byte
	if bz := snap[Topic+"_fsm_state"]; len(bz) > 0 {
		_ = json.Unmarshal(bz, &all)
	}
	out := map[string][]byte{}
	for k, v := range all {
		skip := false
		for _, e := range except {
			if e == k {
				skip = true
			}
		}
		if !skip {
			out[k] = v
		}
	}
	return out
}

// existingRoundsDiff lists the rounds (other than `except`) whose persisted
// dump differs between two snapshots, plus the signature-store keys that differ.
func existingRoundsDiff(before, after map[string][]byte, except ...string) []string {
	var d []string
	rb, ra := roundsBytes(before, except...), roundsBytes(after, except...)
	for k, v := range rb {
		if w, ok := ra[k]; !ok || !bytes.Equal(v, w) {
			d = append(d, fmt.Sprintf("round:%.8s", k))
		}
	}
	for k := range ra {
		if _, ok := rb[k]; !ok {
			d = append(d, fmt.Sprintf("+round:%.8s", k))
		}
	}
	for k, v := range before {
		if k == offsetKey || k == Topic+"_fsm_state" || k == Topic+"_operations" {
			continue
		}
		if w, ok := after[k]; !ok || !bytes.Equal(v, w) {
			d = append(d, canonKey(k))
		}
	}
	for k := range after {
		if _, ok := before[k]; !ok && k != offsetKey && k != Topic+"_fsm_state" && k != Topic+"_operations" {
			d = append(d, "+"+canonKey(k))
		}
	}
	sort.Strings(d)
	return d
}

// SignerErrorResult builds the result file of a signing (or key generation)
// operation whose machine reports a failure, exactly as
// airgapped.writeErrorRequestToOperation does: same operation, the step's
// error event, one message with the error request.
func SignerErrorResult(op *types.Operation, pid int, ev string, text string) []byte {
	res := *op
	// written out by hand (the harness does not use the product's request type): the
	// machine names the batch it could not sign
	m := map[string]interface{}{"ParticipantId": pid, "Error": requests.NewFSMError(errors.New(text)), "CreatedAt": op.CreatedAt}
	if bid := BatchOfOp(op); bid != "" {
		m["BatchID"] = bid
	}
	data, _ := json.Marshal(m)
	res.Event = fsm.Event(ev)
	res.ResultMsgs = []storage.Message{{Event: ev, Data: data, DkgRoundID: op.DKGIdentifier, RecipientAddr: op.To}}
	b, _ := json.Marshal(res)
	return b
}
