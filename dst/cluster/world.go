// Package cluster is the full-system engine: n real hot nodes (real Poll loop,
// real HTTP handlers served in-process, real FSMs and repositories on real
// goleveldb files), n real airgapped machines with real kyber cryptography, one
// simulated bulletin board, and harness actors playing operators, proposers
// and adversaries — all inside a testing/synctest bubble (fake clock) under a
// scheduler that draws every decision from one tape.
package cluster

import (
	"bytes"
	"crypto/rand"
	"fmt"
	"io"
	"log"
	"os"
	"path/filepath"
	"runtime"
	"sort"
	"strings"
	"sync"
	"testing/synctest"
	"time"

	"github.com/google/uuid"

	"dst/sim"
)

// crashSentinel unwinds a task whose process was killed by the simulator.
type crashSentinel struct{ node int }

type grantCmd int

const (
	cmdGo grantCmd = iota
	cmdCrash
)

// GateInfo describes where a task is parked.
type GateInfo struct {
	Point string
	Key   string
}

// Task is a goroutine created inside the bubble that only proceeds past a gate
// when the scheduler grants it.
type Task struct {
	Name       string
	Node       int // hot node index, or -1
	Air        int // airgapped machine index, or -1
	gid        int64
	grant      chan grantCmd
	mu         sync.Mutex
	parked     *GateInfo
	done       bool
	crashed    bool
	panicV     interface{} // non-sentinel panic value
	panicStack string
	gates      int
}

func (t *Task) Parked() *GateInfo {
	t.mu.Lock()
	defer t.mu.Unlock()
	return t.parked
}

func (t *Task) Done() bool {
	t.mu.Lock()
	defer t.mu.Unlock()
	return t.done
}

// World is one simulated run.
type World struct {
	Tape  *sim.Tape
	Log   *sim.EventLog
	Stats *sim.Stats
	Dir   string

	mu    sync.Mutex
	byGid map[int64]*Task
	tasks []*Task
	Steps int
	Gates int
	start time.Time

	Board *Board
	Nodes []*HotNode
	Airs  []*AirNode

	// crash plan: if >0, the CrashAtGate-th gate granted to a task of node
	// CrashNode is answered with a crash.
	CrashNodeIdx int
	CrashAtGate  int
	crashGateCnt int
	OnCrash      func(t *Task, at GateInfo)
	// CrashTorn: when the planned crash lands on a state write, the write is
	// carried out, the process dies right after it and the journal record it
	// appended to the LevelDB log is cut at a tape-chosen byte (a write the
	// process died in the middle of)
	CrashTorn bool
	// airgapped crash plan: the CrashAirAt-th gate granted to any airgapped
	// task (start / air.afterResult / air.afterLog) kills that machine
	CrashAirAt int
	airGateCnt int
	OnAirCrash func(t *Task, at GateInfo)

	// GateHook, when set, is called by the scheduler before each grant
	// (gate-level scenarios use it to record the gate sequence).
	GateHook func(t *Task, g GateInfo)

	// SetSeedTwice: when machines are restored from mnemonics the operator enters the mnemonic twice
	SetSeedTwice bool
	// LongPasswords: the operators' passphrases are longer than any key size
	LongPasswords bool
	// PostGates adds a gate behind every state read and write (C14)
	PostGates bool
	// NodeYields turns the statement-level yield points of the node's message
	// handler (hook H6: before and after a message is applied to the loaded
	// round, before the round is saved) into gates
	NodeYields bool
	// NameOf, when set before the cluster is built, chooses the participants'
	// user names (a participant picks its own name: look-alike names are input)
	NameOf   func(i int) string
	DkgKeyOf func(i int) []byte // key-generation key listed for member i in the next opening proposal (nil: its machine's)

	viol        *sim.Violation
	Prop        string         // property of the scenario being run
	known       *sim.Violation // first recorded (known) finding hit in this run
	KnownHits   int
	fakeSeconds float64
	Abstract    map[string]bool
}

var globalSetup sync.Once

// seeded crypto/rand + uuid stream, swapped per run
type seededReader struct {
	mu  sync.Mutex
	rng *sim.SplitMix64
	buf [8]byte
	n   int
}

func (r *seededReader) Read(p []byte) (int, error) {
	r.mu.Lock()
	defer r.mu.Unlock()
	for i := range p {
		if r.n == 0 {
			v := r.rng.Next()
			for j := 0; j < 8; j++ {
				r.buf[j] = byte(v >> (8 * j))
			}
			r.n = 8
		}
		p[i] = r.buf[8-r.n]
		r.n--
	}
	return len(p), nil
}

var theReader = &seededReader{rng: sim.NewRNG(1)}

// GlobalSetup silences the product's progress output and installs the seeded
// randomness seam. Called once per worker process.
func GlobalSetup() {
	globalSetup.Do(func() {
		log.SetOutput(io.Discard)
		if devnull, err := os.OpenFile(os.DevNull, os.O_WRONLY, 0); err == nil {
			os.Stdout = devnull
		}
		rand.Reader = theReader
		uuid.SetRand(theReader)
	})
}

func reseed(seed uint64) {
	theReader.mu.Lock()
	theReader.rng = sim.NewRNG(seed)
	theReader.n = 0
	theReader.mu.Unlock()
	uuid.SetRand(theReader)
}

// ScratchRoot returns the root for per-run scratch directories.
func ScratchRoot() string {
	if st, err := os.Stat("/dev/shm"); err == nil && st.IsDir() {
		return "/dev/shm"
	}
	return os.TempDir()
}

// NewWorld must be called inside the bubble.
func NewWorld(tape *sim.Tape) *World {
	GlobalSetup()
	reseed(sim.Mix(tape.Seed, 0xc0ffee, 1))
	dir, err := os.MkdirTemp(ScratchRoot(), fmt.Sprintf("dc4bc-dst-%d-", os.Getpid()))
	if err != nil {
		panic(err)
	}
	w := &World{
		Tape:         tape,
		Log:          sim.NewEventLog(),
		Stats:        sim.NewStats(),
		Dir:          dir,
		byGid:        map[int64]*Task{},
		start:        time.Now(),
		CrashNodeIdx: -1,
		Abstract:     map[string]bool{},
	}
	w.Board = newBoard(w)
	yieldWorld.Store(w)
	return w
}

// Cleanup closes every database and removes the scratch directory. It must be
// called inside the bubble; it sleeps two fake seconds so that goleveldb's
// lingering goroutines are gone before the bubble is left.
func (w *World) Cleanup() {
	w.fakeSeconds = w.FakeSeconds()
	// first every task of every process is brought to its end without waiting for
	// the bubble to settle in between: a run may end (verdict reached, step cap, a
	// harness panic) while a task of some node waits for a product mutex held by
	// a parked task of that node, and synctest.Wait does not return as long as
	// any goroutine of the bubble waits for a mutex
	for _, n := range w.Nodes {
		if n.inc != nil {
			n.inc.gs.kill()
			n.inc.cancel()
		}
	}
	w.mu.Lock()
	all := append([]*Task(nil), w.tasks...)
	w.mu.Unlock()
	for round := 0; round < 64; round++ {
		alive := 0
		for _, t := range all {
			if t.Node < 0 || t.Done() {
				continue
			}
			alive++
			if t.Parked() != nil {
				t.grant <- cmdCrash
				for i := 0; i < 4000000 && !t.Done(); i++ {
					runtime.Gosched()
				}
			}
		}
		if alive == 0 {
			break
		}
		for i := 0; i < 20000; i++ {
			runtime.Gosched()
		}
	}
	for _, n := range w.Nodes {
		if n.inc != nil {
			w.stopNode(n, false)
		}
	}
	for _, a := range w.Airs {
		a.close()
	}
	w.settle()
	time.Sleep(3 * time.Second)
	w.settle()
	os.RemoveAll(w.Dir)
}

func (w *World) FakeSeconds() float64 { return time.Since(w.start).Seconds() }

func (w *World) Path(parts ...string) string {
	return filepath.Join(append([]string{w.Dir}, parts...)...)
}

// Fail records the first violation of the run.
func (w *World) Fail(prop, signature, detail string) {
	if sim.IsKnownFinding(prop, signature) {
		// a recorded finding: remember the first instance and keep going, so
		// that a different violation in the same run is still seen
		if w.known == nil {
			w.known = &sim.Violation{Property: prop, Signature: signature, Detail: detail}
			w.Log.Add("KNOWN %s %s", prop, signature)
		}
		w.KnownHits++
		return
	}
	if w.viol == nil {
		w.viol = &sim.Violation{Property: prop, Signature: signature, Detail: detail}
		w.Log.Add("VIOLATION %s %s", prop, signature)
	}
}

func (w *World) Failed() bool              { return w.viol != nil }
func (w *World) Violation() *sim.Violation { return w.viol }

func (w *World) settle() { synctest.Wait() }

// ---- tasks and gates -------------------------------------------------------

func (w *World) currentTask() *Task {
	gid := sim.GoID()
	w.mu.Lock()
	defer w.mu.Unlock()
	return w.byGid[gid]
}

// Gate parks the calling task until the scheduler grants it. Calls from
// goroutines that are not simulator tasks (the scheduler itself evaluating an
// oracle, constructors) pass through.
func (w *World) Gate(point, key string) {
	t := w.currentTask()
	if t == nil {
		return
	}
	t.mu.Lock()
	t.parked = &GateInfo{Point: point, Key: key}
	t.mu.Unlock()
	cmd := <-t.grant
	t.mu.Lock()
	t.parked = nil
	t.gates++
	t.mu.Unlock()
	if cmd == cmdCrash {
		panic(crashSentinel{node: t.Node})
	}
}

// Spawn starts fn as a task. The task parks at its "start" gate first, so the
// scheduler decides when it begins.
func (w *World) Spawn(name string, node, air int, fn func()) *Task {
	t := &Task{Name: name, Node: node, Air: air, grant: make(chan grantCmd)}
	ready := make(chan struct{})
	go func() {
		t.gid = sim.GoID()
		w.mu.Lock()
		w.byGid[t.gid] = t
		w.tasks = append(w.tasks, t)
		w.mu.Unlock()
		close(ready)
		defer func() {
			r := recover()
			t.mu.Lock()
			t.done = true
			t.parked = nil
			if r != nil {
				if _, ok := r.(crashSentinel); ok {
					t.crashed = true
				} else {
					t.panicV = r
					t.panicStack = string(stackTrace())
				}
			}
			t.mu.Unlock()
			w.mu.Lock()
			delete(w.byGid, t.gid)
			w.mu.Unlock()
		}()
		w.Gate("start", name)
		fn()
	}()
	<-ready
	w.settle()
	return t
}

// Grant lets a parked task proceed to its next gate (or its end).
func (w *World) Grant(t *Task) {
	g := t.Parked()
	if g == nil {
		return
	}
	cmd := cmdGo
	if w.CrashAtGate > 0 && t.Node == w.CrashNodeIdx && g.Point != "start" {
		w.crashGateCnt++
		if w.crashGateCnt == w.CrashAtGate {
			cmd = cmdCrash
		}
	}
	if w.GateHook != nil {
		w.GateHook(t, *g)
	}
	if t.Air >= 0 && t.Node < 0 {
		w.airGateCnt++
		if w.CrashAirAt > 0 && w.airGateCnt == w.CrashAirAt {
			w.Log.Add("crash %s at %s %s", t.Name, g.Point, g.Key)
			w.Stats.Fault("crash-cold")
			if w.OnAirCrash != nil {
				w.OnAirCrash(t, *g)
			}
			if t.Air < len(w.Airs) && w.Airs[t.Air] != nil {
				w.Airs[t.Air].Dead = true // nothing may be fed to it before it was restarted
			}
			w.Gates++
			t.grant <- cmdCrash
			w.settle()
			return
		}
	}
	w.Gates++
	if cmd == cmdCrash && w.CrashTorn && isWriteGate(g.Point) && w.Nodes[t.Node].inc != nil {
		w.tornCrash(t, g)
		return
	}
	if cmd == cmdCrash {
		w.Log.Add("crash %s at %s %s", t.Name, g.Point, g.Key)
		w.Stats.Fault("crash-hot")
		if w.OnCrash != nil {
			w.OnCrash(t, *g)
		}
		w.killNodeTasks(t.Node, t)
		return
	}
	w.Log.Add("g %s %s %s", t.Name, g.Point, g.Key)
	t.grant <- cmdGo
	w.settle()
}

func isWriteGate(point string) bool {
	return point == "st.set" || point == "st.saveOffset" || point == "st.del"
}

// journalTail returns the newest LevelDB journal file of dir and its size.
func journalTail(dir string) (string, int64) {
	fs, _ := filepath.Glob(filepath.Join(dir, "*.log"))
	sort.Strings(fs)
	if len(fs) == 0 {
		return "", 0
	}
	f := fs[len(fs)-1]
	st, err := os.Stat(f)
	if err != nil {
		return "", 0
	}
	return f, st.Size()
}

// tornCrash: the write the task is parked at goes through, the process dies
// right behind it, and the record it appended to the journal is truncated at a
// byte chosen from an own stream of the tape (so the schedule is not shifted).
func (w *World) tornCrash(t *Task, g *GateInfo) {
	n := w.Nodes[t.Node]
	dir := n.inc.real.SimPath()
	f0, s0 := journalTail(dir)
	// what is durable if the write is lost
	pend0, del0 := pendingRaw(n.inc)
	off0, _ := n.inc.real.LoadOffset()
	n.inc.gs.mu.Lock()
	n.inc.gs.torn = true
	n.inc.gs.mu.Unlock()
	w.Log.Add("crash-torn %s at %s %s", t.Name, g.Point, g.Key)
	w.Stats.Fault("crash-hot")
	if w.OnCrash != nil {
		w.OnCrash(t, *g)
	}
	t.grant <- cmdGo
	w.settle()
	f1, s1 := journalTail(dir)
	w.killNodeTasks(t.Node, nil)
	if f0 != "" && f0 == f1 && s1 > s0+1 {
		cut := s0 + 1 + int64(w.Tape.Sub(0x7042+uint64(w.Gates)).Next()%uint64(s1-s0-1))
		if err := os.Truncate(f1, cut); err == nil {
			w.Stats.Fault("torn-write")
			n.DeadPending, n.DeadDeleted, n.DeadOffset = pend0, del0, off0
			w.Log.Add("torn %d of %d journal bytes kept", cut-s0, s1-s0)
			return
		}
	}
	// the journal rotated or the record is too small to tear: the run is a
	// crash right behind a completed write
	w.Stats.Probe("torn-write-not-applicable")
}

// killNodeTasks answers every gate of every task of the node with a crash
// (first the victim that triggered it) and marks the incarnation dead.
func (w *World) killNodeTasks(node int, first *Task) {
	n := w.Nodes[node]
	if n.inc != nil {
		n.inc.gs.kill()
		n.inc.cancel()
	}
	// A task of the node may be blocked on a product mutex that another (parked)
	// task of the node holds - gate-level interleaving inside a critical section
	// (C14). synctest.Wait never returns while a goroutine waits for a mutex, so
	// the dying tasks are observed by polling until every one of them is gone:
	// the holder dies at its gate (its deferred unlock runs), the waiter then
	// reaches its own next gate and dies there.
	gone := func(t *Task) {
		for i := 0; i < 4000000 && !t.Done(); i++ {
			runtime.Gosched()
		}
	}
	if first != nil && first.Parked() != nil {
		first.grant <- cmdCrash
		gone(first)
	}
	w.mu.Lock()
	ts := append([]*Task(nil), w.tasks...)
	w.mu.Unlock()
	for round := 0; round < 64; round++ {
		alive := 0
		for _, t := range ts {
			if t.Node != node || t.Done() {
				continue
			}
			alive++
			if t.Parked() != nil {
				t.grant <- cmdCrash
				gone(t)
			}
		}
		if alive == 0 {
			break
		}
		// neither parked nor done: about to get the lock its holder just released,
		// or on its way out after the context was cancelled
		for i := 0; i < 20000; i++ {
			runtime.Gosched()
		}
	}
	w.settle()
	w.closeDeadNode(n)
}

// ArmCrash makes the after-th next gate of any task of the node a process death.
func (w *World) ArmCrash(node, after int) {
	w.CrashNodeIdx = node
	w.crashGateCnt = 0
	w.CrashAtGate = after
}

// RunTask grants t until it is no longer parked at a gate (step-atomic mode):
// for an API task that is its end, for a poller the end of the tick.
func (w *World) RunTask(t *Task) {
	for i := 0; ; i++ {
		if t.Parked() == nil {
			return
		}
		w.Grant(t)
		if i > 200000 {
			panic("RunTask: task does not finish its step")
		}
	}
}

// goroutineBlockedOnLock tells whether the goroutine is blocked on a sync
// primitive (which synctest does not count as durably blocked).
func goroutineBlockedOnLock(gid int64) bool {
	buf := make([]byte, 1<<20)
	n := runtime.Stack(buf, true)
	marker := []byte(fmt.Sprintf("goroutine %d [", gid))
	i := bytes.Index(buf[:n], marker)
	if i < 0 {
		return false
	}
	rest := buf[i+len(marker) : n]
	j := bytes.IndexByte(rest, ']')
	if j < 0 {
		return false
	}
	st := string(rest[:j])
	return strings.Contains(st, "Mutex") || strings.Contains(st, "semacquire") || strings.Contains(st, "sync.Cond")
}

// GrantNB grants a parked task like Grant, but copes with the task blocking on
// a product mutex that another parked task holds (gate-level interleaving
// inside a critical section): it returns false in that case, and the caller
// must let the lock holder run on. synctest.Wait cannot be used while a task
// is blocked on a mutex (not a durable block), so progress is observed by
// polling the task's own park flag.
func (w *World) GrantNB(t *Task) bool {
	g := t.Parked()
	if g == nil {
		return true
	}
	if w.GateHook != nil {
		w.GateHook(t, *g)
	}
	w.Gates++
	w.Log.Add("g %s %s %s", t.Name, g.Point, g.Key)
	before := t.gateCount()
	t.grant <- cmdGo
	blockedObs := 0
	for i := 0; ; i++ {
		if t.Done() || (t.Parked() != nil && t.gateCount() > before) {
			return true
		}
		runtime.Gosched()
		if i%300 == 299 {
			if goroutineBlockedOnLock(t.gid) {
				blockedObs++
			} else {
				blockedObs = 0
			}
			// three consecutive observations: a transient wait on an internal
			// LevelDB/runtime lock is not a block on a product lock
			if blockedObs >= 3 {
				w.Log.Add("blocked %s on a lock", t.Name)
				w.Stats.Probe("task-blocked-on-product-lock")
				return false
			}
			if !t.Done() && t.Parked() == nil && i > 3000 && goroutineWaiting(t.gid) {
				return true // waiting for something else (ticker): treated as end of step
			}
		}
	}
}

// goroutineWaiting: blocked in select/chan receive/sleep (durably), e.g. the poller back on its ticker.
func goroutineWaiting(gid int64) bool {
	buf := make([]byte, 1<<20)
	n := runtime.Stack(buf, true)
	marker := []byte(fmt.Sprintf("goroutine %d [", gid))
	i := bytes.Index(buf[:n], marker)
	if i < 0 {
		return true
	}
	rest := buf[i+len(marker) : n]
	j := bytes.IndexByte(rest, ']')
	if j < 0 {
		return false
	}
	st := string(rest[:j])
	return strings.Contains(st, "select") || strings.Contains(st, "chan receive") || strings.Contains(st, "sleep")
}

func (t *Task) gateCount() int {
	t.mu.Lock()
	defer t.mu.Unlock()
	return t.gates
}

// RunPollTick runs exactly one tick of a poller that is parked at the start
// of a tick (st.loadOffset): it stops when the poller is back waiting for the
// ticker, or parked at the start of the next tick (a tick that became due
// while the poller was stalled).
func (w *World) RunPollTick(t *Task) {
	first := true
	for i := 0; ; i++ {
		g := t.Parked()
		if g == nil {
			return
		}
		if !first && g.Point == "st.loadOffset" {
			return
		}
		first = false
		w.Grant(t)
		if i > 200000 {
			panic("RunPollTick: tick does not finish")
		}
	}
}

// Do runs fn as a task of (node, air) to completion in step-atomic mode.
func (w *World) Do(name string, node, air int, fn func()) *Task {
	t := w.Spawn(name, node, air, fn)
	w.RunTask(t)
	if !t.Done() && t.Parked() == nil {
		// blocked on something that is not a gate: a bug in the harness or a
		// product deadlock; report loudly.
		panic(fmt.Sprintf("task %s blocked outside a gate", name))
	}
	if t.panicV != nil {
		w.Log.Add("panic in %s: %v", name, t.panicV)
	}
	return t
}

// Advance moves the fake clock.
func (w *World) Advance(d time.Duration) {
	w.Log.Add("advance %s", d)
	time.Sleep(d)
	w.settle()
}
