package cluster

import (
	"bytes"
	"crypto/ed25519"
	"encoding/json"
	"fmt"
	"github.com/lidofinance/dc4bc/storage/file_storage"
	"sort"
	"strings"
	"time"

	"github.com/lidofinance/dc4bc/client/modules/keystore"
	"github.com/lidofinance/dc4bc/client/types"
	"github.com/lidofinance/dc4bc/fsm/state_machines"
	spf "github.com/lidofinance/dc4bc/fsm/state_machines/signature_proposal_fsm"
	"github.com/lidofinance/dc4bc/storage"
)

// projection of a round's state to its public, time-free part. withPrivate
// keeps the per-recipient private deals (comparable only between executions of
// the same identity).
func projectDump(d *state_machines.FSMDump, withPrivate bool) string {
	if d == nil || d.Payload == nil {
		return "<no round>"
	}
	out := map[string]interface{}{"State": d.State, "Threshold": d.Payload.Threshold, "DkgId": d.Payload.DkgId, "PubKeys": d.Payload.PubKeys, "IDs": d.Payload.IDs}
	if p := d.Payload.SignatureProposalPayload; p != nil {
		q := map[int]interface{}{}
		for id, e := range p.Quorum {
			q[id] = []interface{}{e.Username, e.Status, e.DkgPubKey, e.PubKey, e.Threshold}
		}
		out["sig"] = q
	}
	if p := d.Payload.DKGProposalPayload; p != nil {
		q := map[int]interface{}{}
		for id, e := range p.Quorum {
			row := []interface{}{e.Username, e.Status, e.DkgPubKey, e.DkgCommit, e.DkgResponse, e.DkgMasterKey, e.Error}
			if withPrivate {
				row = append(row, e.DkgDeal)
			}
			q[id] = row
		}
		out["dkg"] = q
		out["PubPolyBz"] = p.PubPolyBz
	}
	if p := d.Payload.SigningProposalPayload; p != nil {
		q := map[int]interface{}{}
		for id, e := range p.Quorum {
			q[id] = []interface{}{e.Username, e.Status, e.PartialSigns, e.Error}
		}
		out["signing"] = map[string]interface{}{"BatchID": p.BatchID, "InitiatorId": p.InitiatorId, "SrcPayload": p.SrcPayload, "Quorum": q}
	}
	b, _ := json.Marshal(out)
	return string(b)
}

func projectNode(n *HotNode, round string, withPrivate bool) string {
	sig, _ := json.Marshal(n.Signatures(round))
	return projectDump(n.Dump(round), withPrivate) + "\n#signatures " + string(sig)
}

// frozenHandle serves a fixed log and swallows whatever the replaying node sends
// (a node rebuilt from the log re-broadcasts reconstructions; those appends
// must not change the log it is being compared on).
type frozenHandle struct {
	w *World
	// real, when set, is a real file board holding the same log: reads go through
	// FileStorage.GetMessages (the JSON lines, the scanner, the decoding)
	real storage.Storage
	// forward: ignore lists are handed to the real board (and applied by it alone)
	forward bool
	log     []storage.Message
	limit   int
	ign     map[string]struct{}
	ignO    map[uint64]struct{}
	sent    int
}

func (h *frozenHandle) Send(msgs ...storage.Message) error {
	h.w.Gate("board.send", "frozen")
	h.sent += len(msgs)
	return nil
}
func (h *frozenHandle) GetMessages(offset uint64) ([]storage.Message, error) {
	h.w.Gate("board.get", fmt.Sprintf("%d", offset))
	var out []storage.Message
	src := h.log
	if h.real != nil {
		ms, err := h.real.GetMessages(offset)
		if err != nil {
			return nil, err
		}
		src = ms
	}
	for _, m := range src {
		if m.Offset < offset {
			continue
		}
		if _, ok := h.ign[m.ID]; ok {
			continue
		}
		if _, ok := h.ignO[m.Offset]; ok {
			continue
		}
		out = append(out, m)
		if h.limit > 0 && len(out) >= h.limit {
			break
		}
	}
	return out, nil
}
func (h *frozenHandle) Close() error { return nil }
func (h *frozenHandle) IgnoreMessages(ms []string, useOffset bool) error {
	h.w.Gate("board.ignore", "")
	if h.real != nil && h.forward {
		return h.real.IgnoreMessages(ms, useOffset)
	}
	for _, m := range ms {
		if useOffset {
			var o uint64
			fmt.Sscanf(m, "%d", &o)
			h.ignO[o] = struct{}{}
		} else {
			h.ign[m] = struct{}{}
		}
	}
	return nil
}
func (h *frozenHandle) UnignoreMessages() {
	if h.real != nil && h.forward {
		h.real.UnignoreMessages()
		return
	}
	h.ign, h.ignO = map[string]struct{}{}, map[uint64]struct{}{}
}

// replayNode builds a fresh node with the identity of orig (name, key) on an
// empty state directory and lets it consume the given log.
func replayNode(w *World, orig *HotNode, log []storage.Message, tag string, batching bool, restarts bool) (*HotNode, *frozenHandle) {
	return replayNodeOn(w, orig, log, tag, batching, restarts, false)
}

// replayNodeOn: with fileBoard the log is first written to a real file board
// (FileStorage.Send, one message at a time) and the node reads it from there.
func replayNodeOn(w *World, orig *HotNode, log []storage.Message, tag string, batching bool, restarts bool, fileBoard bool) (*HotNode, *frozenHandle) {
	idx := len(w.Nodes)
	nd := &HotNode{Idx: idx, Name: orig.Name, Priv: orig.Priv, Pub: orig.Pub, StateDir: w.Path(fmt.Sprintf("replay_%s_%d", tag, idx)),
		ks: &memKeyStore{keys: map[string]*keystore.KeyPair{}}}
	_ = nd.ks.PutKeys(nd.Name, &keystore.KeyPair{Pub: nd.Pub, Priv: nd.Priv})
	fh := &frozenHandle{w: w, log: log, ign: map[string]struct{}{}, ignO: map[uint64]struct{}{}}
	if fileBoard {
		fs, err := file_storage.NewFileStorage(w.Path(fmt.Sprintf("replay_board_%d.log", idx)), w.Path(fmt.Sprintf("replay_board_%d.lock", idx)))
		if err != nil {
			panic(err)
		}
		for _, m := range log {
			mm := m
			if err := fs.Send(mm); err != nil {
				panic(err)
			}
		}
		fh.real = fs
		w.Stats.Fault("replay-from-a-real-file-board")
	}
	nd.Handle = w.Board.Handle(idx) // unused; Storage is overridden below
	nd.AltStorage = fh
	w.Nodes = append(w.Nodes, nd)
	w.Airs = append(w.Airs, &AirNode{w: w, Idx: idx})
	if err := w.StartNode(nd); err != nil {
		panic(err)
	}
	last := uint64(0)
	if len(log) > 0 {
		last = log[len(log)-1].Offset + 1
	}
	for i := 0; i < 4*len(log)+20 && nd.Offset() < last; i++ {
		w.Advance(1e9)
		if nd.inc == nil {
			break
		}
		if p := nd.inc.Poller; p.Parked() != nil {
			fh.limit = 0
			if batching {
				fh.limit = 1 + w.Tape.Choose(6, "replayBatch")
			}
			if restarts && w.Tape.Bool(1, 5, "replayKill") {
				// a hard kill somewhere inside this tick
				w.ArmCrash(idx, 1+w.Tape.Choose(14, "killAt"))
			}
			w.RunPollTick(p)
			w.CrashAtGate = 0
			if nd.inc == nil {
				w.Stats.Fault("kill-during-replay")
				if err := w.RestartNode(nd); err != nil {
					panic(err)
				}
				continue
			}
		}
		if restarts && w.Tape.Bool(1, 6, "replayRestart") && nd.inc != nil {
			w.stopNode(nd, true)
			if err := w.RestartNode(nd); err != nil {
				panic(err)
			}
			w.Stats.Fault("restart-during-replay")
		}
	}
	return nd, fh
}

func runC08(w *World, tier string) (bool, interface{}) {
	n, t := pickNT(w, tier)
	if n > 4 && tier != "thorough" {
		n = 4
		if t > n {
			t = n
		}
	}
	c := NewCluster(w, n)
	c.L.Faults.ShortReads = true
	c.L.Faults.PermuteResults = true
	c.L.Faults.BoardDownAtSubmit = w.Tape.Bool(1, 2, "boardOutages") // single submissions refused by the board; operators submit again
	members := AllMembers(n)
	for _, op := range c.Ops {
		// operations of the adversary's round-less reinitialisation are left alone
		op.Filter = func(o *types.Operation) bool { return o.DKGIdentifier != "" }
	}
	// junk and duplicates on the board
	lookAlike := map[string]bool{}
	for _, op := range c.Ops {
		prev := op.Filter
		op.Filter = func(o *types.Operation) bool { return !lookAlike[o.DKGIdentifier] && (prev == nil || prev(o)) }
	}
	var roundsSeen []string
	cnt := 0
	w.Board.PreAppend = append(w.Board.PreAppend, func(m storage.Message, by int) {
		if by < 0 || cnt >= 5 || m.Event == string(spf.EventInitProposal) || !w.Tape.Bool(1, 5, "junk?") {
			return
		}
		cnt++
		switch w.Tape.Choose(7, "junkKind") {
		case 6:
			// the opening proposal of this round once more, under an id that only LOOKS like
			// this round's (white space around it, other letter case): that is another round,
			// whatever happens to it must leave this one alone
			var prop *storage.Message
			for i := range w.Board.Msgs {
				if pm := w.Board.Msgs[i]; pm.DkgRoundID == m.DkgRoundID && pm.Event == string(spf.EventInitProposal) && w.Board.Injected[pm.Offset] == nil {
					prop = &w.Board.Msgs[i]
					break
				}
			}
			if prop == nil {
				cnt--
				return
			}
			x := *prop
			x.DkgRoundID = []string{m.DkgRoundID + " ", " " + m.DkgRoundID, m.DkgRoundID + "\n", strings.ToUpper(m.DkgRoundID), "\t" + m.DkgRoundID + " "}[w.Tape.Choose(5, "lookAlikeId")]
			if x.DkgRoundID == m.DkgRoundID {
				x.DkgRoundID = m.DkgRoundID + " "
			}
			lookAlike[x.DkgRoundID] = true
			w.Board.InjectMsg(x, &Inject{Kind: "junk-proposal-under-a-look-alike-round-id"})
			w.Stats.Fault("junk")
			w.Stats.Fault("proposal-under-a-look-alike-round-id")
		case 5:
			// a reinitialisation message that is refused (no round id; half of the time
			// with this round's log embedded), directly followed by an unauthenticated
			// variant of the genuine message: whatever the refusal leaves behind in the
			// running process must not decide how the forgery is treated, or nodes that
			// restarted in between / joined later disagree with the ones that did not
			parts, thr := reinitParticipants(w, m.DkgRoundID)
			var log []storage.Message
			if w.Tape.Bool(1, 2, "withLog") {
				log = relabelledLog(w, m.DkgRoundID, "")
			}
			env := reinitEnvelope(w, by, "", thr, parts, log)
			w.Board.InjectMsg(env, &Inject{Kind: "junk-reinit-without-round-id"})
			x := mutateAuth(w, m, by, []string{"resigned-with-fresh-key", "payload-byte-flipped", "signature-empty"}[w.Tape.Choose(3, "forgeKind")])
			w.Board.InjectMsg(x, &Inject{Kind: "junk-forged-after-refused-reinit"})
			w.Stats.Fault("junk")
			w.Stats.Fault("refused-reinit-then-forgery")
		case 4:
			// an authenticated participant broadcasts a "reconstructed signature" whose payload names
			// another round than the envelope (state of a round may depend only on messages carrying its id)
			other := strings.Repeat("ef", 32)
			for _, r := range roundsSeen {
				if r != m.DkgRoundID {
					other = r
				}
			}
			entry := []map[string]interface{}{{"File": "x", "BatchID": "crafted-batch", "MessageID": "crafted-msg", "SrcPayload": []byte("p"), "Signature": bytes.Repeat([]byte{7}, 96), "Username": w.Nodes[by].Name, "DKGRoundID": other}}
			x := m
			x.Event = "signature_reconstructed"
			x.RecipientAddr = ""
			x.Data, _ = json.Marshal(entry)
			x.Signature = ed25519.Sign(w.Nodes[by].Priv, x.Bytes())
			w.Board.InjectMsg(x, &Inject{Kind: "crafted-broadcast-naming-another-round"})
			w.Stats.Fault("junk")
		case 0:
			w.Board.InjectMsg(m, &Inject{Kind: "duplicate"})
			w.Stats.Fault("duplicate")
		case 1:
			x := m
			x.SenderAddr = "mallory"
			w.Board.InjectMsg(x, &Inject{Kind: "junk-stranger"})
			w.Stats.Fault("junk")
		case 2:
			x := m
			x.Data = []byte(`{"ParticipantId":`)
			x.Signature = ed25519.Sign(w.Nodes[by].Priv, x.Bytes())
			w.Board.InjectMsg(x, &Inject{Kind: "junk-broken-json"})
			w.Stats.Fault("junk")
		default:
			x := m
			x.DkgRoundID = strings.Repeat("cd", 32)
			w.Board.InjectMsg(x, &Inject{Kind: "junk-unknown-round"})
			w.Stats.Fault("junk")
		}
	})
	round, rep := c.StartDKG(w.Tape.Choose(n, "proposer"), t, members)
	if !rep.OK() {
		w.Fail("C08", "startdkg-rejected", rep.ErrMsg)
		return false, nil
	}
	rounds := []string{round}
	roundsSeen = append(roundsSeen, round)
	if w.Tape.Bool(1, 2, "secondRound") {
		c.L.RunUntil(func() bool { return false }, w.Tape.Choose(12*n, "gap"))
		w.Advance(2e9)
		if r2, rep2 := c.StartDKG(w.Tape.Choose(n, "proposer2"), 2+w.Tape.Choose(n-1, "t2"), members); rep2.OK() && r2 != round {
			rounds = append(rounds, r2)
			roundsSeen = append(roundsSeen, r2)
			w.Stats.Fault("multi-round")
		}
	}
	// operators look at their node while it works: status requests (round list, one
	// round's dump) are served inside ticks, also between the moment the poller has
	// loaded a round and the moment it applies the message to it
	if w.Tape.Bool(1, 2, "statusQueries") {
		w.PostGates = true
		w.NodeYields = true
		inHook := false
		w.GateHook = func(tk *Task, g GateInfo) {
			if inHook || tk.Node < 0 || tk.Node >= len(w.Nodes) {
				return
			}
			nd := w.Nodes[tk.Node]
			if nd.inc == nil || nd.inc.Poller != tk || g.Point == "start" || g.Point == "st.loadOffset" {
				return
			}
			if !w.Tape.Bool(1, 6, "statusNow") {
				return
			}
			inHook = true
			path := "/getFSMList"
			if w.Tape.Bool(2, 3, "oneRound") {
				path = "/getFSMDump?dkgID=" + roundsSeen[w.Tape.Choose(len(roundsSeen), "statusOf")]
			}
			w.CallAPI(nd, "status", "GET", path, nil)
			inHook = false
			w.Stats.Fault("status-query-inside-a-tick")
		}
	}
	// clean stop/start of live nodes at message boundaries
	stops := 0
	c.L.AfterStep = func() {
		if stops < 2 && w.Tape.Bool(1, 60, "stop?") {
			v := w.Nodes[w.Tape.Choose(n, "stopWho")]
			if v.inc != nil && v.inc.Poller.Parked() == nil {
				stops++
				w.stopNode(v, true)
				if err := w.RestartNode(v); err != nil {
					panic(err)
				}
				w.Stats.Fault("clean-restart")
			}
		}
	}
	done := func() bool {
		for _, r := range rounds {
			if !(c.AllInState(r, StIdle, members) || c.AnyCancelled(r, members)) {
				return false
			}
		}
		return true
	}
	c.L.RunUntil(done, 800*n)
	if c.AllInState(round, StIdle, members) {
		if w.Tape.Bool(1, 3, "daysBeforeSigning") {
			// the batch is proposed and answered long after the key generation ended (the
			// statement knows no deadline for a batch); a node rebuilt later must agree
			w.Advance([]time.Duration{8 * 24 * time.Hour, 30 * 24 * time.Hour}[w.Tape.Choose(2, "daysBefore")])
			w.Stats.Fault("clock-jump-before-signing")
		}
		before := len(c.Tr.Order)
		c.ProposeFiles(w.Tape.Choose(n, "proposer"), round, map[string][]byte{"c08-a": []byte("first"), "c08-b": []byte("second")})
		c.L.RunUntil(func() bool {
			return len(c.Tr.Order) > before && c.Tr.AllHaveBatch(c.Tr.LastBatch(), members) && c.AllInState(round, StIdle, members)
		}, 300*n)
	}
	c.L.AfterStep = nil
	c.L.Quiesce(10)
	w.GateHook, w.PostGates, w.NodeYields = nil, false, false
	w.Board.PreAppend = nil
	// ---- the log is frozen -----------------------------------------------------------
	L := append([]storage.Message(nil), w.Board.Msgs...)
	compared := 0
	// (a) live nodes that consumed the same prefix agree on everything public
	for _, r := range rounds {
		ref := ""
		for _, i := range members {
			if w.Nodes[i].Offset() != uint64(len(L)) {
				continue
			}
			p := projectNode(w.Nodes[i], r, false)
			if ref == "" {
				ref = p
			} else if p != ref {
				w.Fail("C08", "live-nodes-disagree", fmt.Sprintf("nodes that consumed the same %d-message log disagree on the public state of round %.8s: %s", len(L), r, firstDiff(ref, p)))
			}
			compared++
		}
	}
	if w.Failed() {
		return true, nil
	}
	// (b) a fresh node with the same identity replaying L from offset 0 reaches the live state
	v := w.Nodes[w.Tape.Choose(n, "replayWho")]
	if w.Tape.Bool(1, 3, "replayMuchLater") {
		// the log is replayed long after it was written: the state is a function
		// of the log (message timestamps), not of the moment it is consumed
		d := []time.Duration{8 * 24 * time.Hour, 30 * 24 * time.Hour, 400 * 24 * time.Hour}[w.Tape.Choose(3, "later")]
		w.Advance(d)
		w.Stats.Fault("clock-jump-before-replay")
	}
	variants := []struct {
		name               string
		batching, restarts bool
		fileBoard          bool
	}{{"one-tick", false, false, false}, {"batched-with-restarts", true, true, false}, {"from-a-file-board", w.Tape.Bool(1, 2, "fileBoardBatching"), false, true}}
	for _, vr := range variants {
		rn, rfh := replayNodeOn(w, v, L, vr.name, vr.batching, vr.restarts, vr.fileBoard)
		if rfh.real != nil {
			defer rfh.real.Close()
		}
		for _, r := range rounds {
			a, b := projectNode(v, r, true), projectNode(rn, r, true)
			compared++
			if a != b {
				w.Fail("C08", "replayed-node-differs/"+vr.name, fmt.Sprintf("a node rebuilt from an empty state by replaying the log (%s) differs from the live %s on round %.8s: %s", vr.name, v.Name, r, firstDiff(a, b)))
			}
		}
		w.stopNode(rn, false)
		if w.Failed() {
			return true, nil
		}
	}
	// (c) only the sub-sequence carrying the round's id and addressed to the node matters
	for _, r := range rounds {
		var sub []storage.Message
		for _, m := range L {
			if m.DkgRoundID == r && (m.RecipientAddr == "" || m.RecipientAddr == v.Name) {
				sub = append(sub, m)
			}
		}
		rn, _ := replayNode(w, v, sub, "subseq", true, false)
		a, b := projectNode(v, r, true), projectNode(rn, r, true)
		compared++
		if a != b {
			w.Fail("C08", "other-rounds-or-foreign-messages-matter", fmt.Sprintf("replaying only the %d messages of round %.8s addressed to %s gives another state than the full %d-message log: %s", len(sub), r, v.Name, len(L), firstDiff(a, b)))
		}
		w.stopNode(rn, false)
		if w.Failed() {
			return true, nil
		}
	}
	// (b3) reset on the live node: new empty DB, offset 0, the log is replayed by the live process
	if w.Tape.Bool(1, 2, "reset") && !w.Failed() {
		before := map[string]string{}
		for _, r := range rounds {
			before[r] = projectNode(v, r, true)
		}
		fh := &frozenHandle{w: w, log: L, ign: map[string]struct{}{}, ignO: map[uint64]struct{}{}}
		// half of the time the reset node reads a real file board (the ignore list is then
		// FileStorage's own), and the log's tail reaches that board only after the node has
		// re-read what was there: the polls after a reset are ordinary polls for new messages
		var lateTail []storage.Message
		var resetBoard storage.Storage
		if w.Tape.Bool(1, 2, "resetOnFileBoard") && len(L) > 4 {
			fs, err := file_storage.NewFileStorage(w.Path("reset_board.log"), w.Path("reset_board.lock"))
			if err != nil {
				panic(err)
			}
			defer fs.Close()
			cut := len(L) - w.Tape.Choose(min(len(L)/2, 8)+1, "lateTail")
			for _, m := range L[:cut] {
				if err := fs.Send(m); err != nil {
					panic(err)
				}
			}
			lateTail = L[cut:]
			resetBoard = fs
			fh.real, fh.forward = fs, true
			w.Stats.Fault("state-reset-on-a-real-file-board")
		}
		w.stopNode(v, true)
		v.AltStorage = fh
		if err := w.RestartNode(v); err != nil {
			panic(err)
		}
		// the process has looked at its rounds before the operator resets it (whatever it
		// keeps in memory about them is warm)
		for _, r := range rounds {
			_ = projectNode(v, r, true)
		}
		resetDir := v.StateDir + "_reset"
		// the operator may exclude messages from the replay (by offset): the state
		// afterwards is the one of a node that never saw them
		ignored := []string{}
		var Lf []storage.Message
		if w.Tape.Bool(1, 2, "resetWithIgnoreList") && len(L) > 3 {
			k := 1 + w.Tape.Choose(3, "ignoreK")
			skip := map[uint64]bool{}
			var own []int // positions of the round's genuine messages
			for i := range L {
				if L[i].DkgRoundID == rounds[0] && w.Board.Injected[L[i].Offset] == nil {
					own = append(own, i)
				}
			}
			for len(skip) < k && len(own) > 0 {
				j := w.Tape.Choose(len(own), "ignoreWhich")
				i := own[j]
				own = append(own[:j], own[j+1:]...)
				skip[L[i].Offset] = true
				ignored = append(ignored, fmt.Sprintf("%d", L[i].Offset))
			}
			for _, m := range L {
				if !skip[m.Offset] {
					Lf = append(Lf, m)
				}
			}
			rn, _ := replayNode(w, v, Lf, "without-the-ignored-messages", false, false)
			for _, r := range rounds {
				before[r] = projectNode(rn, r, true)
			}
			w.stopNode(rn, false)
			w.Stats.Fault("state-reset-with-ignore-list")
		}
		body, _ := json.Marshal(map[string]interface{}{"new_state_dbdsn": resetDir, "use_offset": true, "messages": ignored})
		if rp := w.CallAPI(v, "reset", "POST", "/resetState", body); !rp.OK() {
			w.Fail("C08", "reset-rejected", rp.ErrMsg)
			return true, nil
		}
		w.Stats.Fault("state-reset")
		target := uint64(len(L))
		if len(Lf) > 0 {
			target = Lf[len(Lf)-1].Offset + 1
		}
		// the offset the node reaches on what the board holds at the moment of the reset
		stageTarget := uint64(0)
		if resetBoard != nil {
			skipSet := map[string]bool{}
			for _, s := range ignored {
				skipSet[s] = true
			}
			for _, m := range L[:len(L)-len(lateTail)] {
				if !skipSet[fmt.Sprintf("%d", m.Offset)] {
					stageTarget = m.Offset + 1
				}
			}
		}
		for i := 0; i < 4*len(L)+20 && v.Offset() < target; i++ {
			if resetBoard != nil && len(lateTail) > 0 && v.Offset() >= stageTarget {
				// one or two more polls that find nothing new, then the tail arrives (in one or two portions)
				if w.Tape.Bool(1, 2, "idlePollFirst") {
					w.Advance(1e9)
					if p := v.inc.Poller; p.Parked() != nil {
						w.RunPollTick(p)
					}
				}
				k := len(lateTail)
				if k > 1 && w.Tape.Bool(1, 2, "tailInPortions") {
					k = 1 + w.Tape.Choose(k-1, "portion")
				}
				for _, m := range lateTail[:k] {
					if err := resetBoard.Send(m); err != nil {
						panic(err)
					}
					stageTarget = m.Offset + 1
				}
				for _, m := range lateTail[:k] {
					for _, s := range ignored {
						if s == fmt.Sprintf("%d", m.Offset) && stageTarget == m.Offset+1 {
							stageTarget = 0 // recomputed below
						}
					}
				}
				lateTail = lateTail[k:]
				if stageTarget == 0 {
					skipSet := map[string]bool{}
					for _, s := range ignored {
						skipSet[s] = true
					}
					for _, m := range L[:len(L)-len(lateTail)] {
						if !skipSet[fmt.Sprintf("%d", m.Offset)] {
							stageTarget = m.Offset + 1
						}
					}
				}
				w.Stats.Probe("log-grew-after-the-reset")
			}
			w.Advance(1e9)
			if p := v.inc.Poller; p.Parked() != nil {
				w.RunPollTick(p)
			}
		}
		for _, r := range rounds {
			compared++
			if a := projectNode(v, r, true); a != before[r] {
				w.Fail("C08", "state-after-reset-differs", fmt.Sprintf("after a state reset and re-reading the log %s differs from its state before the reset on round %.8s: %s", v.Name, r, firstDiff(before[r], a)))
			}
		}
		// ... and what the replay wrote into the new database is that state too: the
		// process is restarted on the database the reset created
		if !w.Failed() && v.Offset() >= target {
			w.stopNode(v, true)
			v.StateDir = resetDir
			if err := w.RestartNode(v); err != nil {
				w.Fail("C08", "restart-on-reset-database-failed", err.Error())
				return true, nil
			}
			w.Stats.Fault("restart-after-state-reset")
			for _, r := range rounds {
				compared++
				if a := projectNode(v, r, true); a != before[r] {
					w.Fail("C08", "state-after-reset-differs/after-restart", fmt.Sprintf("%s was reset, re-read the whole log and was restarted on the database the reset created: its round %.8s differs from the state before the reset: %s", v.Name, r, firstDiff(before[r], a)))
				}
			}
		}
	}
	return compared > 0, map[string]interface{}{"n": n, "t": t, "rounds": len(rounds), "log_len": len(L), "junk_and_duplicates": cnt, "comparisons": compared, "restarts": stops}
}

func firstDiff(a, b string) string {
	i := 0
	for i < len(a) && i < len(b) && a[i] == b[i] {
		i++
	}
	lo := i - 60
	if lo < 0 {
		lo = 0
	}
	ha, hb := i+80, i+80
	if ha > len(a) {
		ha = len(a)
	}
	if hb > len(b) {
		hb = len(b)
	}
	return fmt.Sprintf("…%s… vs …%s…", a[lo:ha], b[lo:hb])
}

func init() {
	Register(&Scenario{Prop: "C08", Name: "C08", Run: runC08})
}

var _ = sort.Strings
var _ = types.ReinitDKG
