package cluster

import (
	"testing"

	"dst/sim"
)

func TestWorker(t *testing.T) {
	sim.WorkerMain(t, "cluster", func(t *testing.T, scenario, tier string, tape *sim.Tape, keepAll bool) sim.RunResult {
		sc := Scenarios[scenario]
		if sc == nil {
			t.Fatalf("unknown scenario %q", scenario)
		}
		return RunOne(t, sc, tier, tape, keepAll)
	})
}
