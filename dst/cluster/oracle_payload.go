package cluster

import (
	"bytes"
	"encoding/binary"
	"encoding/json"
	"fmt"

	"github.com/herumi/bls-eth-go-binary/bls"

	sif "github.com/lidofinance/dc4bc/fsm/state_machines/signing_proposal_fsm"
	fsmtypes "github.com/lidofinance/dc4bc/fsm/types"
	"github.com/lidofinance/dc4bc/fsm/types/requests"
	"github.com/lidofinance/dc4bc/pkg/utils"
	"github.com/lidofinance/dc4bc/storage"
)

// payloadOracle is C03: what is signed / checked / stored / exported is exactly
// what was proposed, and every participant expands a proposal identically.
type payloadOracle struct {
	c        *Cer
	partials int
	entries  int
}

func (o *payloadOracle) install() {
	o.c.W.Board.OnAppend = append(o.c.W.Board.OnAppend, func(m storage.Message, by int) {
		if m.Event == string(sif.EventSigningPartialSignReceived) {
			o.checkPartial(m)
		}
	})
}

// checkPartial: the bytes the airgapped machine signed are the proposed
// payload: each partial signature verifies (independent verifier) under the
// signer's public share over the harness-side expansion, in the same order.
func (o *payloadOracle) checkPartial(m storage.Message) {
	w := o.c.W
	var req requests.SigningProposalBatchPartialSignRequests
	if err := json.Unmarshal(m.Data, &req); err != nil {
		return
	}
	b := o.c.Tr.Batches[req.BatchID]
	if b == nil {
		return
	}
	if len(req.PartialSigns) != len(b.Msgs) {
		w.Fail("C03", "expansion-length-differs", fmt.Sprintf("participant %d signed %d messages, the proposal expands to %d", req.ParticipantId, len(req.PartialSigns), len(b.Msgs)))
		return
	}
	var kr = w.Airs[0].Keyring(m.DkgRoundID)
	for _, a := range w.Airs {
		if k := a.Keyring(m.DkgRoundID); k != nil {
			kr = k
			break
		}
	}
	if kr == nil {
		return
	}
	initBLS()
	for i, ps := range req.PartialSigns {
		em := b.Msgs[i]
		if ps.MessageID != em.MessageID {
			w.Fail("C03", "expansion-order-differs", fmt.Sprintf("participant %d: position %d has id %q, proposal expands to %q", req.ParticipantId, i, ps.MessageID, em.MessageID))
			return
		}
		if len(ps.Sign) != 98 {
			w.Fail("C03", "partial-signature-malformed", fmt.Sprintf("participant %d: partial signature of %d bytes", req.ParticipantId, len(ps.Sign)))
			return
		}
		idx := int(binary.BigEndian.Uint16(ps.Sign[:2]))
		pkb, err := kr.PubPoly.Eval(idx).V.MarshalBinary()
		if err != nil {
			return
		}
		var pk bls.PublicKey
		var sg bls.Sign
		if pk.Deserialize(pkb) != nil || sg.Deserialize(ps.Sign[2:]) != nil || !sg.VerifyByte(&pk, em.Payload) {
			w.Fail("C03", "signed-bytes-differ-from-proposal", fmt.Sprintf("participant %d: partial signature for message %q (file %q) does not verify over the proposed payload", req.ParticipantId, ps.MessageID, em.File))
			return
		}
		o.partials++
	}
}

// checkStores: SrcPayload / MessageID / File / ValIdx stored at proposal time
// and next to the signature, and the export, equal the proposal.
func (o *payloadOracle) checkStores(round string, members []int) {
	w := o.c.W
	for _, i := range members {
		n := w.Nodes[i]
		sigs := n.Signatures(round)
		for _, bid := range o.c.Tr.Order {
			b := o.c.Tr.Batches[bid]
			if b.Round != round {
				continue
			}
			bs := sigs[bid]
			if len(b.Msgs) > 0 && bs == nil {
				w.Fail("C03", "proposal-not-stored", fmt.Sprintf("%s stores nothing for batch at offset %d", n.Name, b.Offset))
				return
			}
			if len(bs) != len(b.Msgs) && !dupIDs(b.Msgs) {
				w.Fail("C03", "stored-message-set-differs", fmt.Sprintf("%s stores %d message ids for a batch that expands to %d", n.Name, len(bs), len(b.Msgs)))
				return
			}
			for _, em := range b.Msgs {
				es := bs[em.MessageID]
				if len(es) == 0 {
					w.Fail("C03", "stored-message-missing", fmt.Sprintf("%s has no entry for message %q of batch at offset %d", n.Name, em.MessageID, b.Offset))
					return
				}
				for _, e := range es {
					o.entries++
					if bad := cmpEntry(e, em); bad != "" {
						w.Fail("C03", "stored-"+bad+"-differs", fmt.Sprintf("%s entry by %s for message %q: %s differs from the proposal", n.Name, e.Username, em.MessageID, bad))
						return
					}
				}
			}
			// export as the CLI would produce it
			exp, err := utils.PrepareSignaturesToDump(bs)
			if err != nil {
				w.Fail("C03", "export-failed", err.Error())
				return
			}
			for _, em := range b.Msgs {
				x, ok := (*exp)[em.MessageID]
				if !ok || !bytes.Equal(x.Payload, em.Payload) || x.File != em.File {
					w.Fail("C03", "export-differs", fmt.Sprintf("%s export of message %q: payload/file differ from the proposal", n.Name, em.MessageID))
					return
				}
			}
		}
	}
}

// checkExportLikeCLI exports the round's signatures exactly as
// `dc4bc_cli export_signatures` does (all batches merged into one map keyed by
// message id, then PrepareSignaturesToDump) on every node that is up, at any
// moment - also while a batch is still in flight: every exported entry of a
// proposed message carries the proposed payload and file, and a non-empty
// signature verifies over that payload.
func (o *payloadOracle) checkExportLikeCLI(round string, members []int, when string) {
	w := o.c.W
	gk, gerr := w.GroupKey(round)
	// message ids that occur in more than one batch (baked ids) are ambiguous in the merged map
	count := map[string]int{}
	want := map[string]ExpMsg{}
	for _, bid := range o.c.Tr.Order {
		b := o.c.Tr.Batches[bid]
		if b.Round != round || len(b.Earlier) > 0 {
			continue
		}
		for _, em := range b.Msgs {
			count[em.MessageID]++
			want[em.MessageID] = em
		}
	}
	for _, i := range members {
		n := w.Nodes[i]
		if !n.Up() {
			continue
		}
		merged := map[string][]fsmtypes.ReconstructedSignature{}
		for _, bs := range n.Signatures(round) {
			for id := range bs {
				merged[id] = bs[id]
			}
		}
		if len(merged) == 0 {
			continue
		}
		exp, err := utils.PrepareSignaturesToDump(merged)
		if err != nil {
			w.Fail("C03", "export-failed", fmt.Sprintf("%s (%s): %v", n.Name, when, err))
			return
		}
		for id, x := range *exp {
			em, ok := want[id]
			if !ok || count[id] != 1 || em.Payload == nil {
				continue
			}
			o.entries++
			if !bytes.Equal(x.Payload, em.Payload) || x.File != em.File {
				w.Fail("C03", "export-differs", fmt.Sprintf("%s export (%s) of message %q: payload/file differ from the proposal (exported %d bytes, file %q; proposed %d bytes, file %q)", n.Name, when, id, len(x.Payload), x.File, len(em.Payload), em.File))
				return
			}
			if len(x.Signature) > 0 && gerr == nil {
				if err := VerifyETH(gk, em.Payload, x.Signature); err != nil {
					w.Fail("C03", "exported-signature-not-over-proposed-payload", fmt.Sprintf("%s export (%s) of message %q: %v", n.Name, when, id, err))
					return
				}
			}
		}
	}
}

func dupIDs(ms []ExpMsg) bool {
	seen := map[string]bool{}
	for _, m := range ms {
		if seen[m.MessageID] {
			return true
		}
		seen[m.MessageID] = true
	}
	return false
}

func cmpEntry(e fsmtypes.ReconstructedSignature, em ExpMsg) string {
	if !bytes.Equal(e.SrcPayload, em.Payload) {
		return "payload"
	}
	if e.File != em.File {
		return "file"
	}
	if e.MessageID != em.MessageID {
		return "message-id"
	}
	if em.Baked && fmt.Sprintf("%d", e.ValIdx) != em.MessageID {
		return "validator-index"
	}
	return ""
}
