package cluster

import (
	"bytes"
	"encoding/hex"
	"encoding/json"
	"fmt"
	"strings"
	"time"

	"github.com/corestario/kyber/pairing"
	"github.com/corestario/kyber/pairing/bls12381"
	"github.com/corestario/kyber/share"
	"github.com/corestario/kyber/sign/tbls"

	"github.com/lidofinance/dc4bc/client/types"
	"github.com/lidofinance/dc4bc/fsm/types/requests"
	"github.com/lidofinance/dc4bc/storage"
)

// pickNT draws (n,t) with 2<=t<=n; quick tier keeps n small.
func pickNT(w *World, tier string) (int, int) {
	var ns []int
	if tier == "thorough" {
		ns = []int{2, 3, 3, 4, 4, 5, 5, 6, 7}
	} else {
		ns = []int{2, 3, 3, 3, 4, 4, 5}
	}
	n := ns[w.Tape.Choose(len(ns), "n")]
	t := 2 + w.Tape.Choose(n-1, "t")
	return n, t
}

func genPayload(w *World, label string) []byte {
	var sz int
	if w.Prop == "C03" && w.Tape.Choose(10, "emptyPayload?") == 0 {
		return []byte{} // a zero-length file is a legitimate explicit payload
	}
	switch w.Tape.Choose(6, "plSizeClass") {
	case 0:
		sz = 1
	case 1:
		sz = 32
	case 2, 3:
		sz = 2 + w.Tape.Choose(60, "plSize")
	case 4:
		sz = 100 + w.Tape.Choose(400, "plSize")
	default:
		sz = 4096
	}
	r := w.Tape.Sub(uint64(0x7000 + w.Tape.Choose(1<<16, label)))
	b := make([]byte, sz)
	for i := range b {
		b[i] = byte(r.Next())
	}
	return b
}

var fileNames = []string{"msg.txt", "my file.bin", "δοκιμή-файл.dat", "a/b\\c", "x", "  lead", "quote\"q", "tab\tname"}

// signOracle checks every reconstructed signature that appears on the board
// (C01 a/b) as an invariant while the run proceeds.
type signOracle struct {
	c    *Cer
	prop string
	seen int
}

func (o *signOracle) install() {
	o.c.W.Board.OnAppend = append(o.c.W.Board.OnAppend, func(m storage.Message, by int) {
		if m.Event != string(types.SignatureReconstructed) {
			return
		}
		o.checkMessage(m)
	})
}

func (o *signOracle) checkMessage(m storage.Message) {
	w := o.c.W
	gk, err := w.GroupKey(m.DkgRoundID)
	if err != nil {
		w.Fail(o.prop, "no-group-key", err.Error())
		return
	}
	for _, rs := range ParseReconstructed(m) {
		b := o.c.Tr.Batches[rs.BatchID]
		if b == nil {
			w.Fail(o.prop, "broadcast-for-unknown-batch", fmt.Sprintf("signature_reconstructed names batch %s never proposed", rs.BatchID))
			return
		}
		o.checkSig(gk, b, rs.MessageID, rs.Signature, "broadcast by "+m.SenderAddr)
	}
}

func (o *signOracle) checkSig(gk []byte, b *BatchInfo, msgID string, sig []byte, where string) {
	w := o.c.W
	var em *ExpMsg
	for i := range b.Msgs {
		if b.Msgs[i].MessageID == msgID {
			em = &b.Msgs[i]
		}
	}
	if em == nil {
		w.Fail(o.prop, "signature-for-unknown-message", fmt.Sprintf("%s: message id %q is not part of batch %s", where, msgID, b.BatchID))
		return
	}
	o.seen++
	if err := VerifyETH(gk, em.Payload, sig); err != nil {
		w.Fail(o.prop, "invalid-signature", fmt.Sprintf("%s: signature for message %q (file %q, %d-byte payload) of batch %s: %v", where, msgID, em.File, len(em.Payload), b.BatchID, err))
		return
	}
	key := b.Round + "|" + hex.EncodeToString(em.Payload)
	if prev, ok := o.c.Tr.SigByPayload[key]; ok {
		if !bytes.Equal(prev, sig) {
			w.Fail(o.prop, "signatures-differ", fmt.Sprintf("%s: two valid-looking signatures for the same payload under the same round differ", where))
		}
	} else {
		o.c.Tr.SigByPayload[key] = append([]byte(nil), sig...)
	}
}

// checkStores verifies every non-empty signature every node stores.
func (o *signOracle) checkStores(round string, members []int) {
	w := o.c.W
	gk, err := w.GroupKey(round)
	if err != nil {
		return
	}
	for _, i := range members {
		n := w.Nodes[i]
		sigs := n.Signatures(round)
		for _, bid := range sortedKeys(sigs) {
			b := o.c.Tr.Batches[bid]
			if b == nil {
				continue
			}
			for _, mid := range sortedKeys(sigs[bid]) {
				for _, e := range sigs[bid][mid] {
					if len(e.Signature) == 0 {
						continue
					}
					if len(b.Earlier) > 0 {
						// the batch identifier was proposed more than once: a stored entry may
						// still be the one of an earlier proposal, but the signature must be a
						// valid signature of the payload it is stored next to, and that payload
						// must be one that was proposed for this message
						o.seen++
						proposed := false
						for _, gen := range append(append([][]ExpMsg{}, b.Earlier...), b.Msgs) {
							for _, em := range gen {
								if em.MessageID == mid && bytes.Equal(em.Payload, e.SrcPayload) {
									proposed = true
								}
							}
						}
						if !proposed {
							w.Fail(o.prop, "stored-payload-never-proposed", fmt.Sprintf("store of %s (entry by %s): message %q of batch %s is stored with a payload no proposal of that batch carried", n.Name, e.Username, mid, bid))
							return
						}
						if err := VerifyETH(gk, e.SrcPayload, e.Signature); err != nil {
							w.Fail(o.prop, "invalid-signature", fmt.Sprintf("store of %s (entry by %s): the signature stored for message %q of the re-proposed batch %s is not a signature of the payload stored next to it: %v", n.Name, e.Username, mid, bid, err))
							return
						}
						continue
					}
					o.checkSig(gk, b, mid, e.Signature, fmt.Sprintf("store of %s (entry by %s)", n.Name, e.Username))
					if w.Failed() {
						return
					}
				}
			}
		}
	}
}

// genBatch draws a batch and proposes it through one of the real entry points.
func genBatch(c *Cer, round string, proposer int, bno int, prev [][]byte, maxBaked int) (desc string) {
	w := c.W
	kind := w.Tape.Choose(5, "batchKind")
	switch kind {
	case 0: // single message endpoint
		p := genPayload(w, "pl")
		if len(prev) > 0 && w.Tape.Bool(1, 2, "resign") {
			p = prev[w.Tape.Choose(len(prev), "which")]
		}
		c.ProposeOne(proposer, round, p)
		return fmt.Sprintf("one(%dB)", len(p))
	case 1, 2: // batch endpoint
		k := 1 + w.Tape.Choose(4, "k")
		files := map[string][]byte{}
		for j := 0; j < k; j++ {
			p := genPayload(w, "pl")
			if len(prev) > 0 && w.Tape.Bool(1, 3, "resign") {
				p = prev[w.Tape.Choose(len(prev), "which")]
			}
			name := fmt.Sprintf("b%d-%d %s", bno, j, fileNames[w.Tape.Choose(len(fileNames), "fname")])
			files[name] = p
		}
		c.ProposeFiles(proposer, round, files)
		return fmt.Sprintf("files(%d)", k)
	case 3: // baked endpoint
		start := bakedStart(w)
		ln := w.Tape.Choose(maxBaked+1, "bakedLen")
		if start+ln > 18632 {
			ln = 18632 - start
		}
		c.ProposeBaked(proposer, round, start, start+ln)
		return fmt.Sprintf("baked[%d,%d)", start, start+ln)
	default: // crafted mixed proposal
		var ts []TaskSpec
		k := 1 + w.Tape.Choose(3, "k")
		for j := 0; j < k; j++ {
			if w.Tape.Bool(1, 2, "mixBaked") {
				start := bakedStart(w)
				ln := 1 + w.Tape.Choose(maxBaked, "bakedLen")
				if w.Tape.Bool(1, 4, "emptyRangeAmongTasks") {
					ln = 0 // a range that stands for no message at all, next to tasks that do
				}
				if start+ln > 18632 {
					ln = 18632 - start
				}
				ts = append(ts, TaskSpec{Baked: true, Start: start, End: start + ln})
			} else {
				spec := TaskSpec{File: fmt.Sprintf("b%d-%d %s", bno, j, fileNames[w.Tape.Choose(len(fileNames), "fname")]), Payload: genPayload(w, "pl")}
				if w.Tape.Bool(1, 5, "explicitTaskWithRangeFields") {
					// a task that carries its payload and, beside it, range fields (a participant
					// writes its own task list; nothing forbids filling in both): what it proposes
					// is the payload it spells out
					spec.Start = bakedStart(w)
					spec.End = spec.Start + 1 + w.Tape.Choose(3, "strayRangeLen")
					w.Stats.Fault("explicit-task-with-range-fields")
				}
				ts = append(ts, spec)
			}
		}
		c.ProposeRaw(proposer, round, ts)
		return fmt.Sprintf("mixed(%d)", k)
	}
}

func indexOf(a []int, v int) int {
	for i, x := range a {
		if x == v {
			return i
		}
	}
	return 0
}

func bakedStart(w *World) int {
	switch w.Tape.Choose(4, "bakedStartClass") {
	case 0:
		return 0
	case 1:
		return 18632 - w.Tape.Choose(4, "fromEnd")
	default:
		return w.Tape.Choose(18632, "bakedStart")
	}
}

// runSignScenario is the honest key generation + signing workload shared by
// C01, C03 and C07 (each property evaluates its own oracle over it).
//
//	C01: slow signers never answer a batch, so different t-subsets are combined;
//	C03: input-heavy (file names, duplicates, baked boundaries), payload oracles;
//	C07: slow signers answer late: after the batch finished, after the next
//	     batch was proposed, or at the very end (bounded liveness oracle).
func runSignScenario(w *World, tier string, prop string) (bool, interface{}) {
	n, t := pickNT(w, tier)
	if prop == "C03" && n > 3 && tier != "thorough" {
		n = 3
		if t > n {
			t = n
		}
	}
	c := NewCluster(w, n)
	c.L.Faults.ShortReads = w.Tape.Bool(1, 2, "shortReads")
	c.L.Faults.PermuteResults = true
	c.L.Faults.BoardDownAtSubmit = w.Tape.Bool(1, 2, "boardOutages") // single submissions refused by the board; operators submit again
	members := AllMembers(n)
	so := &signOracle{c: c, prop: prop}
	so.install()
	var po *payloadOracle
	if prop == "C03" {
		po = &payloadOracle{c: c}
		po.install()
	}

	round, rep := c.StartDKG(w.Tape.Choose(n, "proposer"), t, members)
	if !rep.OK() {
		w.Fail(prop, "startdkg-rejected", rep.ErrMsg)
		return false, nil
	}
	if !c.RunDKG(round, members, 400*n) {
		if prop == "C07" || prop == "C01" || prop == "C03" {
			// an honest ceremony that does not complete is outside these
			// properties' premises; it is counted, not judged here
			w.Stats.Probe("dkg-incomplete")
		}
		return false, fmt.Sprintf("n=%d t=%d: key generation did not complete (states %v)", n, t, states(c, round))
	}
	w.Abstract["dkg-ready"] = true

	nb := 1 + w.Tape.Choose(3, "batches")
	maxBaked := 3
	if prop == "C03" && tier == "thorough" && w.Tape.Bool(1, 6, "longBaked") {
		maxBaked = 64
	}
	var prev [][]byte
	descs := []string{}
	// release[batchID] : slow signers may answer that batch now
	release := map[string]bool{}
	failBatch := map[string]map[int]bool{} // batch id -> operators whose machines report a failure for it
	staleFail := map[string]bool{}         // old batches whose late answers are failure reports
	never := map[string]map[int]bool{}     // C01: signers that never answer the batch
	slowOf := map[string]map[int]bool{}
	for i, op := range c.Ops {
		i := i
		op.Filter = func(o *types.Operation) bool {
			bid := BatchOfOp(o)
			if bid == "" {
				return true
			}
			if never[bid][i] {
				return false
			}
			if slowOf[bid][i] && !release[bid] {
				return false
			}
			return true
		}
	}
	var pendingRelease []string // batches whose slow answers are released when the next proposal is on the board
	resumeLater := -1           // a stalled node that resumes only once the next proposal is on the board
	for b := 0; b < nb && !w.Failed(); b++ {
		k := t + w.Tape.Choose(n-t+1, "extraSigners")
		perm := permOf(w, n)
		fast := map[int]bool{}
		for _, i := range perm[:k] {
			fast[i] = true
		}
		// C01: sometimes one of the answering participants contributes partial
		// signatures that are well-formed but made with a wrong share (corrupted
		// keyring, share of another ceremony): whatever a node then reconstructs,
		// broadcasts or stores must still be valid - or nothing at all
		faulty := -1
		stepCap := 300 * n
		if prop == "C01" && w.Tape.Bool(1, 4, "faultySigner") {
			faulty = perm[w.Tape.Choose(k, "faultyWho")]
			stepCap = 60 * n
			w.Stats.Fault("faulty-partial-signatures")
		}
		for i, op := range c.Ops {
			i := i
			op.Tamper = func(o *types.Operation, result []byte) []byte {
				if !o.IsSigningState() {
					return result
				}
				if i == faulty {
					return corruptPartialSigns(w, result)
				}
				// the machine reports a failure for this very operation: because its batch is
				// being cancelled by failures, or because this is a slow participant's late
				// answer to an OLD batch and the machine can no longer sign it
				if bid := BatchOfOp(o); failBatch[bid][i] || staleFail[bid] {
					if dd := w.Nodes[i].Dump(round); dd != nil {
						if id, ok := dd.Payload.IDs[w.Nodes[i].Name]; ok {
							if staleFail[bid] {
								w.Stats.Fault("late-answer-to-an-old-batch-is-a-failure-report")
							}
							return SignerErrorResult(o, id, "event_signing_partial_sign_error_received", "machine could not sign")
						}
					}
				}
				return result
			}
		}
		// C07 "do not prevent the signing of later batches": this batch is cancelled
		// by the failure reports of n-t+1 machines (everybody answers promptly, nobody
		// reaches t); the batches after it have to be signed as usual
		var cancelFailing map[int]bool
		cancelBatch := prop == "C07" && b+1 < nb && w.Tape.Bool(1, 5, "batchCancelledByFailures")
		if cancelBatch {
			for _, i := range perm {
				fast[i] = true
			}
			k = n
			cancelFailing = map[int]bool{}
			for _, i := range perm[:n-t+1] {
				cancelFailing[i] = true
			}
		}
		before := len(c.Tr.Order)
		proposer := perm[w.Tape.Choose(n, "proposer")]
		// C07: a second participant, whose node has not yet read the first
		// proposal, proposes a batch of its own right behind it. Every node
		// refuses the latecomer (a batch is running); the running batch must
		// still be reconstructed everywhere.
		racer := -1
		if prop == "C07" && !cancelBatch && w.Tape.Bool(1, 4, "racingProposal") {
			racer = perm[(indexOf(perm, proposer)+1+w.Tape.Choose(n-1, "racer"))%n]
			c.L.PausedPoll[racer] = true
		}
		// C07 "every node that keeps polling": the proposer's own node stops polling
		// right after its proposal is out (and is not among the signers); the nodes
		// that do keep polling must end up with the signatures all the same
		stalled := -1
		if prop == "C07" && !cancelBatch && !fast[proposer] && racer != proposer && n-1 >= t && w.Tape.Bool(1, 2, "proposerStalls") {
			stalled = proposer
		}
		// C01: any node that is not needed for this batch may sit it out (its process
		// does not poll for a while) and catch up later, possibly while the next
		// batch is running: what it then combines, publishes and stores about the
		// old batch must be as valid as everybody else's
		if prop == "C01" && faulty < 0 && n-1 >= t && b+1 < nb && w.Tape.Bool(1, 3, "oneNodeSitsOut") {
			if k == n {
				delete(fast, perm[n-1])
				k = n - 1
			}
			for _, i := range perm {
				if !fast[i] {
					stalled = i
				}
			}
		}
		d := genBatch(c, round, proposer, b, prev, maxBaked)
		// the proposal must reach the board before we can name the batch
		c.L.RunUntil(func() bool { return len(c.Tr.Order) > before }, 20*n)
		if len(c.Tr.Order) <= before {
			delete(c.L.PausedPoll, racer)
			descs = append(descs, d+" (not accepted)")
			continue
		}
		if resumeLater >= 0 {
			// the node that sat out the previous batch only now goes on reading: what it
			// publishes about that batch lands behind this batch's proposal
			delete(c.L.PausedPoll, resumeLater)
			resumeLater = -1
			w.Stats.Fault("stalled-node-catches-up-during-the-next-batch")
		}
		bi := c.Tr.LastBatch()
		if len(bi.Msgs) == 0 {
			// a proposal that expands to nothing (empty baked range) is refused by every
			// node: no batch is running, so there is nothing a second proposal could race
			delete(c.L.PausedPoll, racer)
			racer, stalled, cancelBatch = -1, -1, false
			descs = append(descs, d+" (expands to no message)")
			// long enough for machines to sign and nodes to combine, were anything to be signed
			c.L.RunUntil(func() bool { return false }, 14*n)
			continue
		}
		if racer >= 0 {
			if w.Nodes[racer].RoundState(round) == StIdle {
				rp := c.ProposeFiles(racer, round, map[string][]byte{fmt.Sprintf("racing proposal %d", b): genPayload(w, "racePl")})
				if rp.OK() {
					w.Stats.Fault("racing-proposal")
					d += "+racing-proposal"
				}
			}
			delete(c.L.PausedPoll, racer)
		}
		slow := map[int]bool{}
		for i := 0; i < n; i++ {
			if !fast[i] {
				slow[i] = true
			}
		}
		relMode := 0
		if prop == "C07" {
			slowOf[bi.BatchID] = slow
			relMode = w.Tape.Choose(3, "releaseMode")
			for _, old := range pendingRelease {
				release[old] = true // stale answers may now race with this batch
				if w.Tape.Bool(1, 2, "staleAnswersAreFailures") {
					staleFail[old] = true
				}
				w.Stats.Probe("stale-answers-released-into-later-batch")
			}
			pendingRelease = nil
		} else {
			never[bi.BatchID] = slow
		}
		descs = append(descs, fmt.Sprintf("%s signers=%d rel=%d", d, k, relMode))
		if cancelBatch {
			failBatch[bi.BatchID] = cancelFailing
			gone := c.L.RunUntil(func() bool {
				for _, i := range members {
					st := w.Nodes[i].RoundState(round)
					if !strings.Contains(st, "cancelled") && st != StIdle {
						return false
					}
				}
				return len(bi.Answered) >= t-1
			}, stepCap)
			if gone {
				w.Stats.Fault("batch-cancelled-by-error-reports")
			}
			descs = append(descs, fmt.Sprintf("cancelled by %d failure reports (%v)", n-t+1, gone))
			continue
		}
		if po != nil && w.Tape.Bool(1, 2, "exportInFlight") {
			// an export taken while this batch is in flight (some nodes have stored the
			// proposal, nobody or not everybody has a signature yet)
			c.L.RunUntil(func() bool { return false }, w.Tape.Choose(6*n, "inFlightSteps"))
			po.checkExportLikeCLI(round, members, "batch in flight")
			w.Stats.Probe("export-while-batch-in-flight")
		}
		polling := members
		if stalled >= 0 {
			c.L.PausedPoll[stalled] = true
			w.Stats.Fault("proposer-node-stalled")
			polling = nil
			for _, i := range members {
				if i != stalled {
					polling = append(polling, i)
				}
			}
		}
		ok := c.L.RunUntil(func() bool {
			return c.Tr.AllHaveBatch(bi, polling) && c.AllInState(round, StIdle, polling)
		}, stepCap)
		if faulty >= 0 && !ok {
			// a batch poisoned by a faulty contribution may never complete; later batches are
			// not the subject of C01
			descs = append(descs, "stopped after a faulty contribution")
			break
		}
		for _, em := range bi.Msgs {
			if !em.Baked && em.Payload != nil {
				prev = append(prev, em.Payload)
			}
		}
		// C03: the finished batch is proposed once more under the same batch and
		// message identifiers with corrected (different) payloads; what is signed,
		// stored and exported afterwards has to be the payload of this proposal
		if prop == "C03" && ok && faulty < 0 && !w.Failed() && w.Tape.Bool(1, 4, "reproposeSameIds") {
			// first every willing signer's answer to the original proposal has to be
			// on the board: with the identifiers re-used, a late answer to the old
			// proposal could not be told from an answer to the new one
			c.L.RunUntil(func() bool { return len(bi.Answered) >= k }, 40*n)
			rec0 := c.Tr.Recon
			if len(bi.Answered) >= k && c.ReproposeChanged(perm[w.Tape.Choose(n, "reproposer")], bi.Offset) {
				w.Stats.Fault("batch-reproposed-under-same-identifiers")
				done := c.L.RunUntil(func() bool { return c.Tr.Recon > rec0 && c.AllInState(round, StIdle, members) }, stepCap)
				c.L.Quiesce(10)
				descs = append(descs, fmt.Sprintf("re-proposed under the same ids (done=%v)", done))
			}
		}
		// C01: the documents of the finished batch are proposed again in a NEW batch under their
		// old message identifiers with corrected (different) payloads (proposers choose the ids;
		// nothing asks for fresh ones): every signature reconstructed, broadcast or stored for
		// the new batch has to be a signature of the new payload
		if prop == "C01" && ok && faulty < 0 && !w.Failed() && c.AllInState(round, StIdle, members) && w.Tape.Bool(1, 4, "reproposeIdsInNewBatch") {
			rec0, nb0 := c.Tr.Recon, len(c.Tr.Order)
			if c.ReproposeChanged(perm[w.Tape.Choose(n, "reproposer")], bi.Offset, true) {
				w.Stats.Fault("message-ids-of-a-finished-batch-reused-in-a-new-batch")
				done := c.L.RunUntil(func() bool {
					return len(c.Tr.Order) > nb0 && c.Tr.Recon > rec0 && c.Tr.AllHaveBatch(c.Tr.LastBatch(), members) && c.AllInState(round, StIdle, members)
				}, stepCap)
				c.L.Quiesce(10)
				descs = append(descs, fmt.Sprintf("message ids re-used in a new batch (done=%v)", done))
			}
		}
		if !ok && prop == "C07" && faulty < 0 && !w.Failed() {
			// the random schedule ran into its step cap: judge only after a
			// fault-free round-robin phase (bounded liveness, not luck)
			c.L.Quiesce(12)
			ok = c.Tr.AllHaveBatch(bi, polling) && c.AllInState(round, StIdle, polling)
		}
		if stalled >= 0 {
			if ok {
				w.Stats.Probe("batch-completed-while-proposer-stalled")
			}
			d += "+proposer-stalled"
			if b+1 < nb && w.Tape.Bool(1, 2, "resumesDuringNextBatch") {
				resumeLater = stalled
			} else {
				delete(c.L.PausedPoll, stalled) // it resumes and has to catch up as well
			}
		}
		if !ok && len(bi.Msgs) > 0 && len(bi.Answered) >= t && prop == "C07" && !w.Failed() {
			w.Fail(prop, "batch-not-reconstructed", fmt.Sprintf("batch #%d (%s), correctly answered by %d >= t=%d participants, is not stored by every node / round not idle (states %v)", b, d, len(bi.Answered), t, states(c, round)))
		}
		if prop == "C07" && w.Tape.Bool(1, 3, "clockJump") {
			// "however late the remaining participants answer": days pass
			d := []time.Duration{6 * time.Hour, 3 * 24 * time.Hour, 8 * 24 * time.Hour, 30 * 24 * time.Hour}[w.Tape.Choose(4, "jump")]
			w.Advance(d)
			w.Stats.Fault("clock-jump")
		}
		if prop == "C07" {
			switch relMode {
			case 0:
				release[bi.BatchID] = true // late answers to a finished batch, round idle
			case 1:
				pendingRelease = append(pendingRelease, bi.BatchID)
			default: // released at the very end
			}
		}
		c.L.RunUntil(func() bool { return false }, 3*n)
	}
	if resumeLater >= 0 {
		delete(c.L.PausedPoll, resumeLater)
	}
	// C01 "under that round's group key": a second key generation among a
	// different participant set on the same node processes, then the same
	// payloads (a document and a baked range) signed in both rounds
	round2 := ""
	var members2 []int
	if prop == "C01" && n >= 3 && !w.Failed() && c.AllInState(round, StIdle, members) && w.Tape.Bool(1, 3, "secondRound") {
		drop := w.Tape.Choose(n, "dropMember")
		for _, i := range members {
			if i != drop {
				members2 = append(members2, i)
			}
		}
		t2 := 2 + w.Tape.Choose(len(members2)-1, "t2")
		w.Advance(2 * time.Second)
		r2, rep2 := c.StartDKG(members2[w.Tape.Choose(len(members2), "proposer2")], t2, members2)
		if rep2.OK() && r2 != round && c.RunDKG(r2, members2, 400*n) {
			round2 = r2
			w.Stats.Fault("multi-round")
			doc := genPayload(w, "sharedDoc")
			bs := bakedStart(w)
			if bs > 18630 {
				bs = 18630
			}
			tasks := []TaskSpec{{File: "shared document", Payload: doc}, {Baked: true, Start: bs, End: bs + 2}}
			// the board may be unreachable for one node of both rounds at the very moment it
			// publishes its reconstruction in the first round: whatever that node does about
			// it later, a signature that reaches the board or a store belongs to the round
			// and the batch it is filed under
			if w.Tape.Bool(1, 2, "publicationRefused") {
				w.Nodes[members2[w.Tape.Choose(len(members2), "publicationRefusedFor")]].Handle.SendErrOnEvent = "signature_reconstructed"
			}
			for _, rr := range []struct {
				r string
				m []int
			}{{round, members}, {round2, members2}} {
				before := len(c.Tr.Order)
				c.ProposeRaw(rr.m[w.Tape.Choose(len(rr.m), "proposerShared")], rr.r, tasks)
				c.L.RunUntil(func() bool {
					return len(c.Tr.Order) > before && c.Tr.AllHaveBatch(c.Tr.LastBatch(), rr.m) && c.AllInState(rr.r, StIdle, rr.m)
				}, 300*n)
			}
			descs = append(descs, fmt.Sprintf("second round n=%d t=%d, shared payloads signed in both", len(members2), t2))
		}
	}
	// C01 "or stores": a finished batch is proposed again under the same
	// identifiers with other payloads and this time nobody answers: whatever the
	// stores hold for it afterwards, a signature must belong to the payload next to it
	if prop == "C01" && !w.Failed() && len(c.Tr.Order) > 0 && c.AllInState(round, StIdle, members) && w.Tape.Bool(1, 4, "reproposeUnanswered") {
		var cand []*BatchInfo
		for _, bid := range c.Tr.Order {
			if b := c.Tr.Batches[bid]; b.Round == round && len(b.Answered) >= t && c.Tr.AllHaveBatch(b, members) {
				cand = append(cand, b)
			}
		}
		if len(cand) > 0 {
			b := cand[w.Tape.Choose(len(cand), "reproposeWhich")]
			all := map[int]bool{}
			for _, i := range members {
				all[i] = true
			}
			never[b.BatchID] = all
			if c.ReproposeChanged(members[w.Tape.Choose(n, "reproposer")], b.Offset) {
				w.Stats.Fault("batch-reproposed-under-same-identifiers")
				c.L.RunUntil(func() bool { return false }, 10*n)
				descs = append(descs, "re-proposed under the same ids, unanswered")
			}
		}
	}
	for _, op := range c.Ops {
		op.Filter = func(o *types.Operation) bool { return !never[BatchOfOp(o)][op.Idx] }
	}
	c.L.Quiesce(12)
	so.checkStores(round, members)
	if round2 != "" && !w.Failed() {
		so.checkStores(round2, members2)
	}
	if prop == "C07" && !w.Failed() {
		// bounded liveness: every batch answered by >= t participants is stored
		// (valid, judged by checkStores) on every node, and the round is idle
		for _, bid := range c.Tr.Order {
			bi := c.Tr.Batches[bid]
			if len(bi.Msgs) == 0 || len(bi.Answered) < t {
				continue
			}
			for _, i := range members {
				if !c.Tr.NodeHasBatch(w.Nodes[i], bi) {
					w.Fail(prop, "batch-missing-after-quiescence", fmt.Sprintf("node %d lacks signatures of batch at board offset %d answered by %d participants", i, bi.Offset, len(bi.Answered)))
				}
			}
		}
		if !w.Failed() && !c.AllInState(round, StIdle, members) {
			w.Fail(prop, "round-not-idle-after-quiescence", fmt.Sprintf("states %v", states(c, round)))
		}
	}
	if po != nil && !w.Failed() {
		po.checkStores(round, members)
	}
	if po != nil && !w.Failed() {
		po.checkExportLikeCLI(round, members, "at the end")
	}
	w.Abstract[fmt.Sprintf("n%d-t%d", n, t)] = true
	sample := map[string]interface{}{"n": n, "t": t, "batches": descs, "signatures_checked": so.seen, "board_len": w.Board.Len()}
	if po != nil {
		sample["partials_checked"] = po.partials
		sample["store_entries_checked"] = po.entries
	}
	return so.seen > 0, sample
}

// corruptPartialSigns replaces every partial signature of a result by one made
// with a random share value under the same index (valid encoding, wrong key).
func corruptPartialSigns(w *World, result []byte) []byte {
	var ro types.Operation
	if json.Unmarshal(result, &ro) != nil || len(ro.ResultMsgs) != 1 {
		return result
	}
	var req requests.SigningProposalBatchPartialSignRequests
	if json.Unmarshal(ro.ResultMsgs[0].Data, &req) != nil {
		return result
	}
	suite := bls12381.NewBLS12381Suite(nil).(pairing.Suite)
	r := w.Tape.Sub(0xfa17)
	for i := range req.PartialSigns {
		ps := req.PartialSigns[i].Sign
		if len(ps) < 2 {
			continue
		}
		idx := int(ps[0])<<8 | int(ps[1])
		v := suite.G1().Scalar().Pick(detStream{r})
		// the payload is unknown here on purpose: sign the message id bytes - any well-formed G2 point under a wrong key will do
		sg, err := tbls.Sign(suite, &share.PriShare{I: idx, V: v}, []byte(req.PartialSigns[i].MessageID))
		if err == nil {
			req.PartialSigns[i].Sign = sg
		}
	}
	ro.ResultMsgs[0].Data, _ = json.Marshal(req)
	out, _ := json.Marshal(ro)
	return out
}

type detStream struct{ r interface{ Next() uint64 } }

func (d detStream) XORKeyStream(dst, src []byte) {
	for i := range dst {
		dst[i] = src[i] ^ byte(d.r.Next())
	}
}

func permOf(w *World, n int) []int {
	p := make([]int, n)
	for i := range p {
		p[i] = i
	}
	for i := n - 1; i > 0; i-- {
		j := w.Tape.Choose(i+1, "perm")
		p[i], p[j] = p[j], p[i]
	}
	return p
}

func states(c *Cer, round string) []string {
	var s []string
	for _, n := range c.W.Nodes {
		s = append(s, n.RoundState(round))
	}
	return s
}

func init() {
	for _, p := range []string{"C01", "C03", "C07"} {
		p := p
		Register(&Scenario{Prop: p, Name: p, Run: func(w *World, tier string) (bool, interface{}) {
			return runSignScenario(w, tier, p)
		}})
	}
}
