package cluster

import (
	"bytes"
	"encoding/base64"
	"encoding/hex"
	"encoding/json"
	"fmt"
	"github.com/corestario/kyber/pairing"
	"github.com/corestario/kyber/pairing/bls12381"
	dpf "github.com/lidofinance/dc4bc/fsm/state_machines/dkg_proposal_fsm"
	spf "github.com/lidofinance/dc4bc/fsm/state_machines/signature_proposal_fsm"
	"os"
	"path/filepath"
	"sort"
	"strings"

	"github.com/lidofinance/dc4bc/airgapped"
	"github.com/lidofinance/dc4bc/client/types"
	"github.com/lidofinance/dc4bc/fsm/types/requests"
	"github.com/lidofinance/dc4bc/storage"
)

// blobsOf returns the data itself plus everything that can be decoded out of
// it: JSON string values, base64 (std/url, padded or not) and hex payloads,
// recursively. Searching raw bytes in all of these covers every alignment of
// the usual encodings.
func blobsOf(data []byte, depth int, out *[][]byte, seen map[string]bool) {
	if depth > 8 || len(data) < 8 {
		return
	}
	k := string(data)
	if seen[k] {
		return
	}
	seen[k] = true
	*out = append(*out, data)
	var v interface{}
	if json.Unmarshal(data, &v) == nil {
		var walk func(x interface{})
		walk = func(x interface{}) {
			switch y := x.(type) {
			case string:
				blobsOf([]byte(y), depth+1, out, seen)
			case []interface{}:
				for _, e := range y {
					walk(e)
				}
			case map[string]interface{}:
				for kk, e := range y {
					blobsOf([]byte(kk), depth+1, out, seen)
					walk(e)
				}
			}
		}
		walk(v)
	}
	s := strings.TrimSpace(string(data))
	for _, enc := range []*base64.Encoding{base64.StdEncoding, base64.URLEncoding, base64.RawStdEncoding, base64.RawURLEncoding} {
		if d, err := enc.DecodeString(s); err == nil && len(d) >= 8 {
			blobsOf(d, depth+1, out, seen)
		}
	}
	if d, err := hex.DecodeString(s); err == nil && len(d) >= 8 {
		blobsOf(d, depth+1, out, seen)
	}
}

type secret struct {
	name string
	val  []byte
}

func reverse(b []byte) []byte {
	r := make([]byte, len(b))
	for i := range b {
		r[len(b)-1-i] = b[i]
	}
	return r
}

// findSecret searches a blob set for a secret in raw form (both byte orders),
// hex (both cases) and the base64 alphabets (aligned encodings of the value itself).
func findSecret(blobs [][]byte, s secret) string {
	forms := map[string][]byte{"raw": s.val, "raw-reversed": reverse(s.val),
		"hex": []byte(hex.EncodeToString(s.val)), "HEX": []byte(strings.ToUpper(hex.EncodeToString(s.val))),
		"base64":    []byte(strings.TrimRight(base64.StdEncoding.EncodeToString(s.val), "=")),
		"base64url": []byte(strings.TrimRight(base64.URLEncoding.EncodeToString(s.val), "="))}
	for _, b := range blobs {
		for name, f := range forms {
			if len(f) >= 8 && bytes.Contains(b, f) {
				return name
			}
		}
	}
	return ""
}

func machineSecrets(a *AirNode) []secret {
	var out []secret
	if a.M == nil {
		return nil
	}
	ss := a.M.SimSecrets()
	if ss.SecKey != nil {
		if b, err := ss.SecKey.MarshalBinary(); err == nil {
			out = append(out, secret{"long-term-private-key", b})
		}
	}
	if len(ss.BaseSeed) > 0 {
		out = append(out, secret{"seed", ss.BaseSeed})
	}
	for round, cs := range ss.DealerCoeffs {
		for i, c := range cs {
			if b, err := c.MarshalBinary(); err == nil {
				out = append(out, secret{fmt.Sprintf("dealer-polynomial-coefficient-%d/round-%.6s", i, round), b})
			}
		}
	}
	if ks, err := a.M.GetBLSKeyrings(); err == nil {
		for round, kr := range ks {
			if b, err := kr.Share.V.MarshalBinary(); err == nil {
				out = append(out, secret{fmt.Sprintf("bls-share/round-%.6s", round), b})
			}
		}
	}
	return out
}

// taintScan searches everything that left the given machines (result files,
// recorded outputs) and every board message for every secret of each machine.
func taintScan(w *World, airs []*AirNode) (nsecrets, nblobs, noutputs int) {
	var outputs [][]byte
	for _, a := range airs {
		if a == nil {
			continue
		}
		outputs = append(outputs, a.Outputs...)
		for _, f := range a.ResultFiles() {
			if b, err := os.ReadFile(f); err == nil {
				outputs = append(outputs, b)
			}
		}
	}
	for _, m := range w.Board.Msgs {
		b, _ := json.Marshal(m)
		outputs = append(outputs, b)
	}
	var blobs [][]byte
	seen := map[string]bool{}
	for _, o := range outputs {
		blobsOf(o, 0, &blobs, seen)
	}
	for i, a := range airs {
		if a == nil || a.M == nil {
			continue
		}
		for _, s := range machineSecrets(a) {
			nsecrets++
			if form := findSecret(blobs, s); form != "" {
				kind := s.name
				if j := strings.Index(kind, "/"); j >= 0 {
					kind = kind[:j]
				}
				if strings.HasPrefix(kind, "dealer-polynomial-coefficient") {
					kind = "dealer-polynomial-coefficient"
				}
				w.Fail("C04", "secret-leaves-machine/"+kind+"/"+form, fmt.Sprintf("machine %d: its %s appears (%s) in a result file or board message", i, s.name, form))
			}
		}
	}
	// a secret need not appear to leave: two Schnorr signatures (kyber signs deals and
	// responses with the machine's long-term key: commitment R, then s = k + h*x) that share R but not s were made with one nonce k for two messages, and
	// x = (s1-s2)/(h1-h2) is the long-term private key for whoever holds both
	byR := map[string]map[string]bool{}
	nsig := 0
	g1 := bls12381.NewBLS12381Suite(nil).(pairing.Suite).G1()
	pl := g1.PointLen()
	// the signatures a dealer puts inside its sealed deals are made with the same key and the same
	// nonce stream; the deal's addressee - another participant - reads them. Every deal that left
	// a machine (result files, board) is opened with its addressee's key for this comparison only.
	sigBlobs := append([][]byte(nil), blobs...)
	openedSeen := map[string]bool{}
	openDeal := func(m storage.Message) {
		if m.Event != string(dpf.EventDKGDealConfirmationReceived) {
			return
		}
		var req requests.DKGProposalDealConfirmationRequest
		if json.Unmarshal(m.Data, &req) != nil || len(req.Deal) == 0 {
			return
		}
		for _, a := range airs {
			if a == nil || a.M == nil {
				continue
			}
			if pt, err := a.M.SimDecrypt(req.Deal); err == nil {
				blobsOf(pt, 0, &sigBlobs, openedSeen)
				w.Stats.Probe("sealed-deal-opened-for-the-nonce-comparison")
				return
			}
		}
	}
	for _, o := range outputs {
		var ro types.Operation
		if json.Unmarshal(o, &ro) == nil {
			for _, m := range ro.ResultMsgs {
				openDeal(m)
			}
		}
	}
	for _, m := range w.Board.Msgs {
		openDeal(m)
	}
	for _, b := range sigBlobs {
		if len(b) != pl+g1.ScalarLen() || g1.Point().UnmarshalBinary(b[:pl]) != nil {
			continue // not a curve point followed by a scalar
		}
		nsig++
		r, s := string(b[:pl]), string(b[pl:])
		if byR[r] == nil {
			byR[r] = map[string]bool{}
		}
		byR[r][s] = true
	}
	for r, ss := range byR {
		if len(ss) > 1 {
			w.Fail("C04", "private-key-computable-from-outputs/schnorr-nonce-used-for-two-messages", fmt.Sprintf("%d different signatures in result files / board messages share the nonce commitment %x…: the signer's long-term private key follows from any two of them", len(ss), r[:8]))
			break
		}
	}
	w.Stats.ProbeN("schnorr-signatures-compared", nsig)
	w.Stats.ProbeN("secrets-searched", nsecrets)
	w.Stats.ProbeN("blobs-scanned", len(blobs))
	return nsecrets, len(blobs), len(outputs)
}

func runC04(w *World, tier string) (bool, interface{}) {
	n, t := pickNT(w, tier)
	if n < 3 {
		n = 3
	}
	if n > 4 && tier != "thorough" {
		n = 4
	}
	if t > n {
		t = n
	}
	w.LongPasswords = w.Tape.Bool(1, 2, "longPasswords")
	// participants choose their own names: names that differ in letter case or
	// white space only must still be different participants (whose deal is whose)
	if w.Tape.Bool(1, 3, "lookAlikeNames") {
		w.NameOf = func(i int) string {
			return []string{"alice", "Alice", "ALICE", "alice ", " alice", "aLICE", "alicE"}[i%7]
		}
		w.Stats.Fault("look-alike-user-names")
	}
	c := NewCluster(w, n)
	fedOps := map[int][][]byte{} // key-generation operation files each machine was fed
	for i, op := range c.Ops {
		i := i
		op.PreAir = func(o *types.Operation, opJSON []byte) {
			if !o.IsSigningState() {
				fedOps[i] = append(fedOps[i], append([]byte(nil), opJSON...))
			}
		}
	}
	c.L.Faults.PermuteResults = true
	c.L.Faults.BoardDownAtSubmit = w.Tape.Bool(1, 2, "boardOutages") // single submissions refused by the board; operators submit again
	members := AllMembers(n)
	// round A
	roundA, rep := c.StartDKG(w.Tape.Choose(n, "proposer"), t, members)
	if !rep.OK() {
		w.Fail("C04", "startdkg-rejected", rep.ErrMsg)
		return false, nil
	}
	// round B: same or different threshold; same, permuted or partly different participant list
	membersB := append([]int(nil), members...)
	listKind := []string{"same-list", "permuted-list", "smaller-list", "same-list", "permuted-list", "smaller-list", "keys-swapped-between-names"}[w.Tape.Choose(7, "listKind")]
	switch listKind {
	case "keys-swapped-between-names":
		// the second proposal lists two users under each other's key-generation key
		// (machines swapped, or a proposer's slip): that round cannot complete, but a
		// deal labelled for a user must still be sealed to the key this round lists
		// for that user and to no other
		x := w.Tape.Choose(n, "swapA")
		y := (x + 1 + w.Tape.Choose(n-1, "swapB")) % n
		w.DkgKeyOf = func(i int) []byte {
			switch i {
			case x:
				return w.Airs[y].PubKeyBytes()
			case y:
				return w.Airs[x].PubKeyBytes()
			}
			return w.Airs[i].PubKeyBytes()
		}
		w.Stats.Fault("keys-swapped-between-names")
	case "permuted-list":
		p := permOf(w, n)
		for i := range membersB {
			membersB[i] = p[i]
		}
	case "smaller-list":
		membersB = membersB[:n-1]
	}
	tB := t
	if w.Tape.Bool(1, 2, "otherThreshold") {
		tB = 2 + w.Tape.Choose(len(membersB)-1, "tB")
	}
	if tB > len(membersB) {
		tB = len(membersB)
	}
	interleaved := w.Tape.Bool(1, 2, "interleaved")
	if !interleaved && w.Tape.Bool(1, 2, "fileReadTwiceThenRestart") {
		// inside a ceremony: the stick still holds the deals file when the next file arrives and
		// the operator reads it once more (its result leaves the machine again); then the machine
		// is switched off and on the prescribed way (password, replay of the log) and the
		// ceremony goes on. Whatever the replay re-creates, nothing signed afterwards may share
		// a nonce with anything that left the machine before.
		for i, op := range c.Ops {
			i, prev := i, op.PreAir
			op.PreAir = func(o *types.Operation, opJSON []byte) {
				if string(o.Type) == string(dpf.StateDkgResponsesAwaitConfirmations) && len(fedOps[i]) > 0 && w.Tape.Bool(1, 2, "readTwiceNow?") {
					last := fedOps[i][len(fedOps[i])-1]
					var lo types.Operation
					if json.Unmarshal(last, &lo) == nil && lo.DKGIdentifier == o.DKGIdentifier && string(lo.Type) == string(dpf.StateDkgDealsAwaitConfirmations) {
						_, _ = w.AirProcess(w.Airs[i], last)
						w.Stats.Fault("operation-file-handed-over-twice")
						rounds := []string{roundA}
						if o.DKGIdentifier != roundA {
							rounds = append(rounds, o.DKGIdentifier)
						}
						if err := w.Airs[i].Restart(rounds); err != nil {
							w.Fail("C04", "machine-restart-failed", err.Error())
							return
						}
						w.Stats.Fault("machine-restarted-inside-a-ceremony")
					}
				}
				if prev != nil {
					prev(o, opJSON)
				}
			}
		}
	}
	if !interleaved {
		if !c.RunDKG(roundA, members, 500*n) {
			return false, "round A did not complete"
		}
	} else {
		c.L.RunUntil(func() bool { return false }, w.Tape.Choose(15*n, "gap"))
	}
	if !interleaved && w.Tape.Bool(1, 2, "machinesRestartedBetweenRounds") {
		// the machines are switched off after the first ceremony and, for the second one,
		// switched on again the prescribed way (password, replay of the finished round's
		// log): what the replay writes into the result folder leaves the machine as well
		for _, i := range members {
			if w.Tape.Bool(2, 3, "restartThisMachine") {
				if err := w.Airs[i].Restart([]string{roundA}); err != nil {
					w.Fail("C04", "machine-restart-failed", err.Error())
					return true, nil
				}
				w.Stats.Fault("machine-restarted-between-rounds")
			}
		}
	}
	w.Advance(2e9)
	roundB, repB := c.StartDKG(membersB[w.Tape.Choose(len(membersB), "proposerB")], tB, membersB)
	w.DkgKeyOf = nil
	if !repB.OK() || roundB == roundA {
		return false, "round B not started"
	}
	w.Stats.Fault("multi-round")
	c.L.RunUntil(func() bool {
		return c.AllInState(roundA, StIdle, members) && c.AllInState(roundB, StIdle, membersB)
	}, 900*n)
	if !(c.AllInState(roundA, StIdle, members) && c.AllInState(roundB, StIdle, membersB)) {
		// whose deal is whose does not depend on the rounds completing
		if checkDealAddressees(w) > 0 && w.Failed() {
			return true, nil
		}
		return false, fmt.Sprintf("rounds did not complete: A %v B %v", states(c, roundA), states(c, roundB))
	}
	// a signed batch in each round, and one induced error result
	for _, r := range []struct {
		id string
		ms []int
	}{{roundA, members}, {roundB, membersB}} {
		before := len(c.Tr.Order)
		c.ProposeFiles(r.ms[0], r.id, map[string][]byte{"c04 " + r.id[:4]: []byte("payload " + r.id[:6])})
		c.L.RunUntil(func() bool {
			return len(c.Tr.Order) > before && c.Tr.AllHaveBatch(c.Tr.LastBatch(), r.ms) && c.AllInState(r.id, StIdle, r.ms)
		}, 300*n)
	}
	// error result: a machine is asked to produce deals for a round it has no instance of
	if bad, err := json.Marshal(types.Operation{ID: strings.Repeat("ab", 16), Type: "state_dkg_commits_await_confirmations", Payload: []byte(`[{"ParticipantId":0,"Username":"x","DkgPubKey":"AAAA","Threshold":2}]`), DKGIdentifier: roundA}); err == nil {
		_, _ = w.AirProcess(w.Airs[0], bad)
		w.Stats.Fault("error-result-induced")
	}
	// more error results: genuine operation files of the key-generation steps fed
	// again with one binary field damaged in transit (truncated or replaced
	// ciphertext / point): whatever the machine answers is scanned as well
	for k := 0; k < 3 && !w.Failed(); k++ {
		i := w.Tape.Choose(len(w.Airs), "damagedFor")
		if len(fedOps[i]) == 0 || w.Airs[i] == nil || w.Airs[i].M == nil {
			continue
		}
		raw := fedOps[i][w.Tape.Choose(len(fedOps[i]), "damagedOp")]
		var om map[string]json.RawMessage
		var pl []byte
		if json.Unmarshal(raw, &om) != nil || json.Unmarshal(om["Payload"], &pl) != nil {
			continue
		}
		md, ok := mutateJSON(w, pl, []string{"truncated-bytes-value", "junk-bytes-value"}[w.Tape.Choose(2, "damage")])
		if !ok {
			continue
		}
		om["Payload"], _ = json.Marshal(md)
		if bad, err := json.Marshal(om); err == nil {
			_, _ = w.AirProcess(w.Airs[i], bad)
			w.Stats.Fault("error-result-induced-by-damaged-operation")
		}
	}
	c.L.Quiesce(6)

	// observation only (same root cause as the recorded cross-round finding: both the
	// long-term key and the dealer polynomial are the first draw from frand(seed)):
	// is a dealer's constant coefficient the machine's long-term private key?
	for _, a := range w.Airs {
		if a == nil || a.M == nil {
			continue
		}
		var lt []byte
		for _, sc := range machineSecrets(a) {
			if sc.name == "long-term-private-key" {
				lt = sc.val
			}
		}
		for _, sc := range machineSecrets(a) {
			if strings.HasPrefix(sc.name, "dealer-polynomial-coefficient-0/") && len(lt) > 0 {
				if bytes.Equal(sc.val, lt) {
					w.Stats.Probe("dealer-constant-coefficient-equals-long-term-private-key")
				} else {
					w.Stats.Probe("dealer-constant-coefficient-differs-from-long-term-private-key")
				}
			}
		}
	}
	// ---- (1) taint scan over everything that left a machine or is on the board --------
	nsecrets, nblobs, noutputs := taintScan(w, w.Airs)
	outputs := make([][]byte, noutputs)
	blobs := make([][]byte, nblobs)
	// ---- (2) a deal can be opened by its addressee only ------------------------------------
	deals := checkDealAddressees(w)
	// ---- (4) cross-round: nothing shared ---------------------------------------------------
	commitsOf := func(round string) map[string][]string {
		out := map[string][]string{}
		for _, m := range w.Board.Msgs {
			if m.DkgRoundID != round || m.Event != "event_dkg_commit_confirm_received" {
				continue
			}
			var req requests.DKGProposalCommitConfirmationRequest
			var cs [][]byte
			if json.Unmarshal(m.Data, &req) == nil && json.Unmarshal(req.Commit, &cs) == nil {
				for _, cpt := range cs {
					out[m.SenderAddr] = append(out[m.SenderAddr], hex.EncodeToString(cpt))
				}
			}
		}
		return out
	}
	ca, cb := commitsOf(roundA), commitsOf(roundB)
	pairKind := fmt.Sprintf("%s/t%s", listKind, map[bool]string{true: "-same", false: "-different"}[t == tB])
	w.Abstract[pairKind] = true
	inB := map[string]string{}
	for who, cs := range cb {
		for _, x := range cs {
			inB[x] = who
		}
	}
	for who, cs := range ca {
		for k, x := range cs {
			if other, ok := inB[x]; ok {
				w.Fail("C04", "cross-round/dealer-commitment-reused/"+pairKind, fmt.Sprintf("commitment #%d of dealer %s in round %.6s equals a commitment of dealer %s in round %.6s (equal commitment <=> equal secret coefficient)", k, who, roundA, other, roundB))
				break
			}
		}
	}
	ka, _ := w.GroupKey(roundA)
	kb, _ := w.GroupKey(roundB)
	if ka != nil && bytes.Equal(ka, kb) {
		w.Fail("C04", "cross-round/group-key-shared/"+pairKind, fmt.Sprintf("rounds %.6s and %.6s have the same group key", roundA, roundB))
	}
	for _, i := range membersB {
		sa, sb := shareOf(w.Airs[i], roundA), shareOf(w.Airs[i], roundB)
		if sa != "" && sb != "" && sa[strings.Index(sa, ":"):] == sb[strings.Index(sb, ":"):] {
			w.Fail("C04", "cross-round/share-shared/"+pairKind, fmt.Sprintf("machine %d holds the same share value in both rounds", i))
			break
		}
	}
	// ---- (3) storage: encrypted at rest, wrong password fails ---------------------------------
	victim := w.Tape.Choose(n, "storageVictim")
	a := w.Airs[victim]
	secs := machineSecrets(a)
	dir := a.Dir
	pw := a.Password
	// the running machine's session ends (cmd/airgapped drops the password and the
	// keys after a while) and somebody types a wrong password, or none, into the SAME
	// process - which has opened everything with the right one before
	if a.M != nil && !a.Dead {
		for k, wp := range [][]byte{nil, []byte("not the password"), append(append([]byte(nil), pw...), '!'), pw[:len(pw)-1]} {
			a.M.DropSensitiveData()
			if wp != nil {
				a.M.SetEncryptionKey(wp)
			}
			if err := a.M.LoadKeysFromDB(); err == nil {
				w.Fail("C04", "private-key-loads-with-wrong-password", fmt.Sprintf("machine %d: after the session of the running machine ended, LoadKeysFromDB succeeded with wrong password #%d (nil = none)", victim, k))
			}
			if ks, err := a.M.GetBLSKeyrings(); err == nil && len(ks) > 0 {
				w.Fail("C04", "bls-shares-load-with-wrong-password", fmt.Sprintf("machine %d: after the session of the running machine ended, GetBLSKeyrings returned %d keyrings with wrong password #%d (nil = none)", victim, len(ks), k))
			}
			w.Stats.Probe("wrong-password-after-session-expiry")
		}
		a.M.DropSensitiveData()
		a.M.SetEncryptionKey(pw)
		if err := a.M.LoadKeysFromDB(); err != nil {
			w.Fail("C04", "right-password-refused-after-wrong-ones", fmt.Sprintf("machine %d: %v", victim, err))
		}
	}
	a.close()
	var raw [][]byte
	files, _ := filepath.Glob(filepath.Join(dir, "*"))
	sort.Strings(files)
	for _, f := range files {
		if b, err := os.ReadFile(f); err == nil {
			raw = append(raw, b)
		}
	}
	for _, s := range secs {
		if s.name == "seed" || strings.HasPrefix(s.name, "dealer-polynomial") {
			continue // the statement's storage clause is about the private key and the BLS shares
		}
		if form := findSecret(raw, s); form != "" {
			kind := s.name
			if j := strings.Index(kind, "/"); j >= 0 {
				kind = kind[:j]
			}
			w.Fail("C04", "plaintext-secret-in-database-files/"+kind+"/"+form, fmt.Sprintf("machine %d: %s is readable (%s) in the raw LevelDB files", victim, s.name, form))
		}
	}
	wrongOK := 0
	for k := 0; k < 8; k++ {
		m, err := airgapped.NewMachine(dir)
		if err != nil {
			break
		}
		wp := append([]byte(fmt.Sprintf("wrong-%d-", k)), pw[:w.Tape.Choose(len(pw), "wrongPwLen")]...)
		switch k {
		case 2:
			wp = append(append([]byte(nil), pw...), 'x')
		case 3: // same length, one character off
			wp = append([]byte(nil), pw...)
			wp[w.Tape.Choose(len(wp), "pwPos")] ^= 0x01
		case 4: // same length, all zero bytes
			wp = make([]byte, len(pw))
		case 5: // the right passphrase with its last character changed
			wp = append([]byte(nil), pw...)
			wp[len(wp)-1] ^= 0x01
		case 6: // the right passphrase cut short (a long common prefix)
			wp = append([]byte(nil), pw[:len(pw)-1-w.Tape.Choose(max(1, len(pw)/3), "cut")]...)
		case 7: // the right passphrase with its tail replaced
			wp = append([]byte(nil), pw...)
			for j := len(wp) - 1 - w.Tape.Choose(max(1, len(wp)/3), "tail"); j < len(wp); j++ {
				wp[j] = 'x'
			}
			if bytes.Equal(wp, pw) {
				wp[len(wp)-1] = 'y'
			}
		}
		m.SetEncryptionKey(wp)
		if err := m.LoadKeysFromDB(); err == nil {
			w.Fail("C04", "private-key-loads-with-wrong-password", fmt.Sprintf("machine %d: LoadKeysFromDB succeeded with a wrong password", victim))
		}
		if ks, err := m.GetBLSKeyrings(); err == nil && len(ks) > 0 {
			w.Fail("C04", "bls-shares-load-with-wrong-password", fmt.Sprintf("machine %d: GetBLSKeyrings returned %d keyrings with a wrong password", victim, len(ks)))
		}
		_ = m.SimClose()
		wrongOK++
	}
	w.Stats.ProbeN("wrong-passwords-tried", wrongOK)
	// the production start sequence (cmd/airgapped: NewMachine, SetEncryptionKey,
	// InitKeys) on a copy of the initialised database with a wrong password: it
	// must not end with the operator's private key loaded
	var realPriv []byte
	for _, s := range secs {
		if s.name == "long-term-private-key" {
			realPriv = s.val
		}
	}
	cp := dir + "_wrongpw"
	if err := copyDir(dir, cp); err == nil && len(realPriv) > 0 {
		if m, err := airgapped.NewMachine(cp); err == nil {
			m.SetEncryptionKey(append([]byte("cold-start-"), pw[:w.Tape.Choose(len(pw), "wrongPwLen2")]...))
			ierr := m.InitKeys()
			var gotPriv []byte
			if sk := m.SimSecrets().SecKey; sk != nil {
				gotPriv, _ = sk.MarshalBinary()
			}
			if ierr == nil && bytes.Equal(gotPriv, realPriv) {
				w.Fail("C04", "private-key-available-after-start-with-wrong-password", fmt.Sprintf("machine %d: NewMachine+SetEncryptionKey+InitKeys with a wrong password on the initialised database succeeded and the machine holds the operator's long-term private key", victim))
			}
			w.Stats.Probe("cold-start-with-wrong-password")
			_ = m.SimClose()
		}
	}
	_ = os.RemoveAll(cp)
	return true, map[string]interface{}{"n": n, "tA": t, "tB": tB, "round_b_list": listKind, "interleaved": interleaved, "outputs_scanned": len(outputs), "blobs": len(blobs), "secrets": nsecrets, "deal_foreign_key_pairs": deals}
}

// checkDealAddressees: every sealed deal on the board opens with the key of the
// machine it is addressed to and with no other machine's key.
func checkDealAddressees(w *World) int {
	deals := 0
	// the key each round lists for each user name (its opening proposal)
	listed := map[string]map[string][]byte{}
	for _, m := range w.Board.Msgs {
		if m.Event != string(spf.EventInitProposal) {
			continue
		}
		var req requests.SignatureProposalParticipantsListRequest
		if json.Unmarshal(m.Data, &req) != nil {
			continue
		}
		if listed[m.DkgRoundID] == nil {
			listed[m.DkgRoundID] = map[string][]byte{}
			for _, p := range req.Participants {
				if p != nil {
					listed[m.DkgRoundID][p.Username] = p.DkgPubKey
				}
			}
		}
	}
	for _, m := range w.Board.Msgs {
		if m.Event != "event_dkg_deal_confirm_received" || m.RecipientAddr == "" {
			continue
		}
		var req requests.DKGProposalDealConfirmationRequest
		if json.Unmarshal(m.Data, &req) != nil || string(req.Deal) == "self-confirm" {
			continue
		}
		key := listed[m.DkgRoundID][m.RecipientAddr]
		for j, a := range w.Airs {
			if a == nil || a.M == nil || j >= len(w.Nodes) {
				continue
			}
			addressee := w.Nodes[j].Name == m.RecipientAddr
			if key != nil {
				addressee = bytes.Equal(a.PubKeyBytes(), key)
			}
			if addressee {
				if _, err := a.M.SimDecrypt(req.Deal); err != nil {
					w.Fail("C04", "deal-not-decryptable-by-addressee", fmt.Sprintf("the deal sent by %q for %q in round %.6s cannot be opened with the key that round lists for %q: %v", m.SenderAddr, m.RecipientAddr, m.DkgRoundID, m.RecipientAddr, err))
				}
				continue
			}
			deals++
			if pt, err := a.M.SimDecrypt(req.Deal); err == nil {
				w.Fail("C04", "deal-decryptable-by-non-addressee", fmt.Sprintf("the deal sent by %q to %q in round %.6s opens with the key of %q's machine (%d bytes of plaintext)", m.SenderAddr, m.RecipientAddr, m.DkgRoundID, w.Nodes[j].Name, len(pt)))
			}
		}
	}
	w.Stats.ProbeN("deal-x-foreign-key-pairs", deals)
	return deals
}

func init() {
	Register(&Scenario{Prop: "C04", Name: "C04", Run: runC04})
}

var _ storage.Message
