package cluster

import (
	"bytes"
	"crypto/ed25519"
	"encoding/json"
	"fmt"
	"reflect"
	"strings"
	"time"

	"github.com/lidofinance/dc4bc/client/types"
	"github.com/lidofinance/dc4bc/storage"
)

var c15Altering = []string{"ID", "Type", "Payload", "Payload-emptied", "Payload-null", "Payload-truncated", "Payload-extended", "Event-empty", "Event-processed", "unknown-ID"}
var c15Neutral = []string{"To", "DKGIdentifier", "CreatedAt", "ExtraData", "ResultMsgs-presigned"}

// runC15: carrier faults on the hot<->cold path and the JSON round trips.
func runC15(w *World, tier string) (bool, interface{}) {
	n, t := pickNT(w, tier)
	if n > 4 && tier != "thorough" {
		n = 4
		if t > n {
			t = n
		}
	}
	c := NewCluster(w, n)
	c.L.Faults.PermuteResults = true
	c.L.Faults.BoardDownAtSubmit = w.Tape.Bool(1, 2, "boardOutages") // also while a node posts its own participation confirmation
	members := AllMembers(n)
	judged := 0
	var kinds []string
	answered := map[string]int{} // node|opID -> number of times its messages reached the board

	// every append by a node must be explained by the submission in progress
	type inflight struct {
		node   int
		op     *types.Operation
		expect []storage.Message
		got    int
		legit  bool
		// selfBuilt: the node builds the message itself (participation
		// approval); only attribution and signature are judged
		selfBuilt bool
	}
	var cur *inflight
	w.Board.OnAppend = append(w.Board.OnAppend, func(m storage.Message, by int) {
		if by < 0 {
			return
		}
		if m.Event == "event_sig_proposal_init" || m.Event == "event_signing_start" || m.Event == "signature_reconstructed" || m.Event == "reinit_dkg" {
			return // proposals and reconstruction broadcasts are not answers to operations
		}
		if cur == nil || cur.node != by {
			w.Fail("C15", "message-posted-outside-a-submission/"+m.Event, fmt.Sprintf("node %d appended %s while no result of one of its pending operations was being submitted", by, m.Event))
			return
		}
		if !cur.legit {
			w.Fail("C15", "altered-result-reached-the-board/"+m.Event, fmt.Sprintf("node %d appended %s for a submission whose id/type/payload do not match a pending operation", by, m.Event))
			return
		}
		if cur.selfBuilt {
			cur.got++
			if m.SenderAddr != w.Nodes[by].Name || !ed25519.Verify(w.Nodes[by].Pub, m.Bytes(), m.Signature) {
				w.Fail("C15", "posted-message-signature-invalid/"+m.Event, fmt.Sprintf("approval posted by node %d is not attributed to / signed by the node", by))
			}
			if cur.got > 1 {
				w.Fail("C15", "more-messages-than-in-the-result/"+m.Event, "approval posted more than one message")
			}
			return
		}
		if cur.got >= len(cur.expect) {
			w.Fail("C15", "more-messages-than-in-the-result/"+m.Event, fmt.Sprintf("node %d appended more messages than the submitted result contains", by))
			return
		}
		e := cur.expect[cur.got]
		cur.got++
		if m.Event != e.Event || !bytes.Equal(m.Data, e.Data) || m.DkgRoundID != e.DkgRoundID || m.RecipientAddr != e.RecipientAddr {
			w.Fail("C15", "posted-message-differs-from-result/"+m.Event, fmt.Sprintf("node %d posted (ev=%s to=%s round=%.8s %dB), the result said (ev=%s to=%s round=%.8s %dB)", by, m.Event, m.RecipientAddr, m.DkgRoundID, len(m.Data), e.Event, e.RecipientAddr, e.DkgRoundID, len(e.Data)))
			return
		}
		if m.SenderAddr != w.Nodes[by].Name {
			w.Fail("C15", "posted-message-not-attributed-to-node", fmt.Sprintf("sender %q, node %q", m.SenderAddr, w.Nodes[by].Name))
			return
		}
		if !ed25519.Verify(w.Nodes[by].Pub, m.Bytes(), m.Signature) {
			w.Fail("C15", "posted-message-signature-invalid/"+m.Event, fmt.Sprintf("message %s posted by node %d does not verify under the node's key", m.Event, by))
		}
	})

	poolIDs := func(nd *HotNode) string {
		var ids []string
		for _, o := range nd.PendingOps() {
			ids = append(ids, o.ID)
		}
		return strings.Join(ids, ",")
	}
	submit := func(i int, body []byte, inf *inflight) *APIResult {
		cur = inf
		rep := w.CallAPI(w.Nodes[i], "submit", "POST", "/handleProcessedOperationJSON", body)
		cur = nil
		return rep
	}
	for i := range c.Ops {
		i := i
		op := c.Ops[i]
		// (a) the operation file round trip: what the API hands out, parsed as the airgapped CLI does
		op.PreAir = func(o *types.Operation, opJSON []byte) {
			var parsed types.Operation
			if err := json.Unmarshal(opJSON, &parsed); err != nil {
				w.Fail("C15", "operation-file-not-parseable/"+string(o.Type), err.Error())
				return
			}
			if bad := opDiff(o, &parsed); bad != "" {
				w.Fail("C15", "operation-file-roundtrip-differs/"+string(o.Type)+"/"+bad, fmt.Sprintf("field %s of the %s operation changed on the way node -> JSON file -> airgapped machine", bad, o.Type))
			}
			judged++
		}
		// (b) the carrier presents altered variants before the genuine result
		op.PreSubmit = func(o *types.Operation, body []byte) {
			nd := w.Nodes[i]
			var genuine types.Operation
			if json.Unmarshal(body, &genuine) != nil {
				return
			}
			for _, kind := range append(append([]string{}, c15Altering...), c15Neutral...) {
				if !w.Tape.Bool(1, 5, "variant?") || w.Failed() {
					continue
				}
				v := genuine
				v.ResultMsgs = append([]storage.Message(nil), genuine.ResultMsgs...)
				legit := false
				switch kind {
				case "ID":
					v.ID = flipHex(v.ID)
				case "unknown-ID":
					v.ID = strings.Repeat("ab", 16)
				case "Type":
					v.Type = types.OperationType("state_dkg_deals_await_confirmations")
					if v.Type == genuine.Type {
						v.Type = "state_dkg_commits_await_confirmations"
					}
				case "Payload":
					if len(v.Payload) == 0 {
						continue
					}
					v.Payload = append([]byte(nil), v.Payload...)
					v.Payload[w.Tape.Choose(len(v.Payload), "plByte")] ^= 0x01
				case "Payload-emptied", "Payload-null", "Payload-truncated", "Payload-extended":
					if len(v.Payload) == 0 {
						continue
					}
					switch kind {
					case "Payload-emptied":
						v.Payload = []byte{}
					case "Payload-null":
						v.Payload = nil
					case "Payload-truncated":
						v.Payload = append([]byte(nil), v.Payload[:len(v.Payload)-1-w.Tape.Choose(len(v.Payload), "plCut")%len(v.Payload)]...)
					default:
						v.Payload = append(append([]byte(nil), v.Payload...), ' ')
					}
				case "Event-empty":
					v.Event = ""
					v.ResultMsgs = nil
				case "Event-processed":
					// the event field arrives as the one that finishes a reinitialisation, on the
					// answer to an ordinary operation: whatever the node makes of it, an accepted
					// result's messages are posted (and a refused one has no effect)
					if string(v.Type) == string(types.ReinitDKG) || len(v.ResultMsgs) == 0 || string(v.Event) == string(types.OperationProcessed) {
						continue
					}
					v.Event = types.OperationProcessed
				default:
					continue // neutral fields are part of the answer, exercised with the genuine submit below
				}
				vb, _ := json.Marshal(v)
				before, blen := poolIDs(nd), w.Board.Len()
				rep := submit(i, vb, &inflight{node: i, op: o, legit: legit})
				judged++
				kinds = append(kinds, kind+"@"+string(o.Type))
				w.Stats.Fault("carrier-altered-" + kind)
				if w.Failed() {
					return
				}
				if rep.OK() && kind == "Event-processed" {
					if got := w.Board.Len() - blen; got != len(v.ResultMsgs) {
						w.Fail("C15", "accepted-result-not-posted/"+string(o.Type), fmt.Sprintf("node %d accepted the answer to its %s operation (event field %s, %d result messages), retired the operation and posted %d messages", i, o.Type, v.Event, len(v.ResultMsgs), got))
					}
					return
				}
				if rep.OK() {
					w.Fail("C15", "altered-result-accepted/"+kind+"/"+string(o.Type), fmt.Sprintf("node %d accepted a result whose %s differs from the pending operation", i, kind))
					return
				}
				if w.Board.Len() != blen || poolIDs(nd) != before {
					w.Fail("C15", "rejected-result-had-effects/"+kind+"/"+string(o.Type), fmt.Sprintf("node %d rejected the submission (%s) but the board grew by %d / the pool changed", i, rep.ErrMsg, w.Board.Len()-blen))
					return
				}
			}
		}
		// (c) the genuine submission, observed
		op.Submit = func(o *types.Operation, body []byte) *APIResult {
			nd := w.Nodes[i]
			var genuine types.Operation
			if err := json.Unmarshal(body, &genuine); err != nil {
				return submit(i, body, &inflight{node: i, op: o})
			}
			// neutral fields altered in transit are still "an answer": ids/type/payload unchanged
			if w.Tape.Bool(1, 6, "neutral?") {
				k := c15Neutral[w.Tape.Choose(len(c15Neutral), "neutralKind")]
				switch k {
				case "CreatedAt":
					genuine.CreatedAt = genuine.CreatedAt.Add(time.Hour)
				case "To":
					genuine.To = "somebody else"
				case "DKGIdentifier":
					// the header's round name is not among the fields an answer is matched by;
					// the messages inside the result still say which round they belong to
					genuine.DKGIdentifier = flipHex(genuine.DKGIdentifier)
					w.Stats.Fault("carrier-altered-round-header")
				case "ExtraData":
					if string(genuine.Type) != string(types.ReinitDKG) {
						genuine.ExtraData = []byte("carrier note")
					}
				case "ResultMsgs-presigned":
					// sender and signature fields arrive already filled in by somebody else:
					// the node must still attribute and sign what it posts
					for k := range genuine.ResultMsgs {
						if w.Tape.Bool(1, 2, "presign?") {
							genuine.ResultMsgs[k].SenderAddr = "mallory"
							genuine.ResultMsgs[k].Signature = ed25519.Sign(freshKey(w, uint64(k)+31), genuine.ResultMsgs[k].Bytes())
							w.Stats.Fault("carrier-presigned-result-message")
						}
					}
				}
				body, _ = json.Marshal(genuine)
				kinds = append(kinds, "neutral-"+k+"@"+string(o.Type))
			}
			// the board is unreachable for one submission: nothing is posted, the
			// operation stays pending, and the later retry posts it exactly once
			if string(genuine.Event) != string(types.OperationProcessed) && len(genuine.ResultMsgs) > 0 && w.Tape.Bool(1, 8, "boardDown?") {
				nd.Handle.SendErrOnce = true
				pool0, blen0 := poolIDs(nd), w.Board.Len()
				repE := submit(i, body, &inflight{node: i, op: o, expect: genuine.ResultMsgs, legit: true})
				nd.Handle.SendErrOnce = false
				kinds = append(kinds, "board-unreachable@"+string(o.Type))
				judged++
				if w.Failed() {
					return repE
				}
				if repE.OK() {
					w.Fail("C15", "submission-reported-success-although-board-unreachable/"+string(o.Type), fmt.Sprintf("node %d answered OK although the board refused the messages", i))
					return repE
				}
				if w.Board.Len() != blen0 || poolIDs(nd) != pool0 {
					w.Fail("C15", "failed-post-had-effects/"+string(o.Type), fmt.Sprintf("node %d could not reach the board (%s) but the board grew by %d / the pool changed (%s -> %s)", i, repE.ErrMsg, w.Board.Len()-blen0, pool0, poolIDs(nd)))
					return repE
				}
			}
			// the node process dies somewhere inside this submission (between reading the
			// pool, posting, and the writes that retire the operation) and is restarted:
			// the operator submits the file it still holds again if the operation is
			// offered again. What was durably retired must stay retired (judged when the
			// batch's proposal is re-posted at the end).
			if genuine.IsSigningState() && w.Tape.Bool(1, 5, "dieInSubmit?") {
				w.ArmCrash(i, 1+w.Tape.Choose(12, "dieAt"))
				repC := submit(i, body, &inflight{node: i, op: o, expect: genuine.ResultMsgs, legit: true})
				w.CrashAtGate = 0
				if repC.Crashed || nd.Inc() == nil {
					w.Stats.Fault("crash-hot")
					kinds = append(kinds, "process-died-in-submit@"+string(o.Type))
					if nd.Inc() == nil {
						if err := w.RestartNode(nd); err != nil {
							w.Fail("C15", "restart-failed", err.Error())
						}
					}
					return repC
				}
				if repC.OK() {
					answered[fmt.Sprintf("%d|%s", i, o.ID)]++
				}
				return repC
			}
			inf := &inflight{node: i, op: o, expect: genuine.ResultMsgs, legit: true}
			blen := w.Board.Len()
			rep := submit(i, body, inf)
			judged++
			if w.Failed() {
				return rep
			}
			if rep.OK() {
				answered[fmt.Sprintf("%d|%s", i, o.ID)]++
				if string(genuine.Event) != string(types.OperationProcessed) && inf.got != len(genuine.ResultMsgs) {
					w.Fail("C15", "result-messages-not-all-posted/"+string(o.Type), fmt.Sprintf("node %d accepted the result with %d messages but posted %d", i, len(genuine.ResultMsgs), inf.got))
					return rep
				}
				for _, p := range nd.PendingOps() {
					if p.ID == o.ID {
						w.Fail("C15", "answered-operation-still-pending/"+string(o.Type), fmt.Sprintf("operation %s of node %d was answered but is still pending", o.ID, i))
						return rep
					}
				}
				// the same result once more: must be refused and must append nothing
				if w.Tape.Bool(1, 3, "again?") {
					blen2 := w.Board.Len()
					rep2 := submit(i, body, &inflight{node: i, op: o, legit: false})
					w.Stats.Fault("carrier-duplicate-submission")
					kinds = append(kinds, "duplicate@"+string(o.Type))
					if w.Failed() {
						return rep
					}
					if rep2.OK() || w.Board.Len() != blen2 {
						w.Fail("C15", "operation-answered-twice/"+string(o.Type), fmt.Sprintf("node %d accepted the same result twice (board grew by %d)", i, w.Board.Len()-blen2))
						return rep
					}
				}
				// the machine is asked again for an operation it already answered (file lost):
				// whatever it writes must be a parseable result file
				if w.Tape.Bool(1, 4, "refeed?") {
					get, _ := json.Marshal(o)
					if res, err := w.AirProcess(w.Airs[i], get); err == nil && res != nil {
						w.Stats.Fault("operation-refed-to-machine")
						var ro types.Operation
						if jerr := json.Unmarshal(res, &ro); jerr != nil {
							w.Fail("C15", "result-file-not-json/"+string(o.Type), fmt.Sprintf("machine %d processed a %s operation a second time and left a result file that is not valid JSON: %v", i, o.Type, jerr))
						}
					}
				}
			} else if w.Board.Len() != blen && !rep.Crashed {
				w.Fail("C15", "rejected-result-had-effects/genuine/"+string(o.Type), fmt.Sprintf("node %d answered with an error (%s) but %d messages were posted", i, rep.ErrMsg, w.Board.Len()-blen))
			}
			return rep
		}
		op.Approve = func(o *types.Operation, body []byte) *APIResult {
			cur = &inflight{node: i, op: o, legit: true, selfBuilt: true}
			rep := w.CallAPI(w.Nodes[i], "approve", "POST", "/approveDKGParticipation", body)
			cur = nil
			return rep
		}
	}
	round, rep := c.StartDKG(w.Tape.Choose(n, "proposer"), t, members)
	if !rep.OK() {
		w.Fail("C15", "startdkg-rejected", rep.ErrMsg)
		return false, nil
	}
	ready := c.RunDKG(round, members, 500*n)
	if ready && !w.Failed() {
		before := len(c.Tr.Order)
		c.ProposeFiles(w.Tape.Choose(n, "proposer"), round, map[string][]byte{"c15": []byte("sign me")})
		c.L.RunUntil(func() bool {
			return len(c.Tr.Order) > before && c.Tr.AllHaveBatch(c.Tr.LastBatch(), members) && c.AllInState(round, StIdle, members)
		}, 300*n)
	}
	if !w.Failed() {
		c.L.Quiesce(8)
	}
	// an already retired identifier comes back: the finished batch's proposal is
	// re-posted unchanged (the board accepts anything), the round re-opens the
	// batch, which derives the same operation ids again, and the carrier
	// submits the old result files once more. Nothing may be answered twice.
	if !w.Failed() && len(c.Tr.Order) > 0 && c.AllInState(round, StIdle, members) && w.Tape.Bool(1, 2, "lateDuplicate") {
		bi := c.Tr.LastBatch()
		start := w.Board.Msgs[bi.Offset]
		w.Board.InjectMsg(start, &Inject{Kind: "replayed-proposal"})
		w.Stats.Fault("proposal-replayed-after-completion")
		for r := 0; r < 3; r++ {
			w.Advance(time.Second)
			for _, nd := range w.Nodes {
				if nd.inc != nil && nd.inc.Poller.Parked() != nil {
					w.RunPollTick(nd.inc.Poller)
				}
			}
		}
		for i, op := range c.Ops {
			for id, body := range op.results {
				var ro types.Operation
				if json.Unmarshal(body, &ro) != nil || !ro.IsSigningState() {
					continue
				}
				blen := w.Board.Len()
				rep := submit(i, body, &inflight{node: i, legit: false})
				judged++
				if w.Failed() {
					break
				}
				if rep.OK() || w.Board.Len() != blen {
					w.Fail("C15", "retired-operation-answered-again/"+string(ro.Type), fmt.Sprintf("node %d had retired operation %s; after the batch's proposal was re-posted the old result was accepted again (board grew by %d)", i, id, w.Board.Len()-blen))
					break
				}
				w.Stats.Probe("late-duplicate-refused")
			}
		}
		return judged > 0, map[string]interface{}{"n": n, "t": t, "variants": kinds, "judged": judged, "late_duplicate": true}
	}
	for k, v := range answered {
		if v > 1 && !w.Failed() {
			w.Fail("C15", "operation-answered-twice", fmt.Sprintf("%s answered %d times", k, v))
		}
	}
	if !w.Failed() && !c.AllInState(round, StIdle, members) {
		w.Fail("C15", "ceremony-disturbed-by-rejected-submissions", fmt.Sprintf("states %v after variants %v", states(c, round), kinds))
	}
	return judged > 0, map[string]interface{}{"n": n, "t": t, "variants": kinds, "judged": judged, "board_len": w.Board.Len()}
}

func flipHex(s string) string {
	if s == "" {
		return "0"
	}
	b := []byte(s)
	if b[0] == 'a' {
		b[0] = 'b'
	} else {
		b[0] = 'a'
	}
	return string(b)
}

// opDiff names the first field in which two operations differ.
func opDiff(a, b *types.Operation) string {
	switch {
	case a.ID != b.ID:
		return "ID"
	case a.Type != b.Type:
		return "Type"
	case !bytes.Equal(a.Payload, b.Payload):
		return "Payload"
	case !a.CreatedAt.Equal(b.CreatedAt):
		return "CreatedAt"
	case a.DKGIdentifier != b.DKGIdentifier:
		return "DKGIdentifier"
	case a.To != b.To:
		return "To"
	case a.Event != b.Event:
		return "Event"
	case !bytes.Equal(a.ExtraData, b.ExtraData):
		return "ExtraData"
	case len(a.ResultMsgs) != len(b.ResultMsgs) || (len(a.ResultMsgs) > 0 && !reflect.DeepEqual(a.ResultMsgs, b.ResultMsgs)):
		return "ResultMsgs"
	}
	return ""
}

func init() {
	Register(&Scenario{Prop: "C15", Name: "C15", Run: runC15})
}
