package cluster

import (
	"errors"
	"fmt"
	"strconv"

	"github.com/google/uuid"

	"github.com/lidofinance/dc4bc/storage"
)

// Board is the simulated bulletin board: one in-memory totally ordered log with
// the contract of storage.Storage as FileStorage implements it (Send appends
// atomically and assigns ID and Offset = position; GetMessages(k) returns the
// entries from position k on, minus ignored ones). Nothing is ever removed or
// reordered after the fact: the log is the ground truth.
type Board struct {
	w    *World
	Msgs []storage.Message
	// OnAppend observers (oracles)
	OnAppend []func(m storage.Message, by int)
	// PreAppend lets an adversary put messages on the board right before a
	// genuine message becomes visible (by = appending node index).
	PreAppend []func(m storage.Message, by int)
	// Injected marks adversarial entries by offset.
	Injected map[uint64]*Inject
}

// Inject describes an adversarial board entry.
type Inject struct {
	Kind   string // mutation kind (canonical, part of violation signatures)
	Event  string
	Detail string
	Expect string // "reject": must change nothing; "": not judged
	Seen   map[int]bool
}

// InjectMsg appends an adversarial message (no PreAppend recursion).
func (b *Board) InjectMsg(m storage.Message, inj *Inject) uint64 {
	m.ID = uuid.New().String()
	m.Offset = uint64(len(b.Msgs))
	b.Msgs = append(b.Msgs, m)
	if b.Injected == nil {
		b.Injected = map[uint64]*Inject{}
	}
	inj.Event = m.Event
	inj.Seen = map[int]bool{}
	b.Injected[m.Offset] = inj
	b.w.Log.Add("inject %d kind=%s ev=%s round=%.8s from=%s to=%s", m.Offset, inj.Kind, m.Event, m.DkgRoundID, m.SenderAddr, m.RecipientAddr)
	for _, f := range b.OnAppend {
		f(m, -1)
	}
	return m.Offset
}

func newBoard(w *World) *Board { return &Board{w: w} }

// Append is used by harness actors (adversary, carrier) that write directly.
func (b *Board) Append(by int, msgs ...storage.Message) []storage.Message {
	out := make([]storage.Message, 0, len(msgs))
	for _, m := range msgs {
		for _, f := range b.PreAppend {
			f(m, by) // the hook injects through InjectMsg itself
		}
		m.ID = uuid.New().String()
		m.Offset = uint64(len(b.Msgs))
		b.Msgs = append(b.Msgs, m)
		b.w.Log.Add("append %d ev=%s round=%.8s from=%s to=%s", m.Offset, m.Event, m.DkgRoundID, m.SenderAddr, m.RecipientAddr)
		out = append(out, m)
		for _, f := range b.OnAppend {
			f(m, by)
		}
	}
	return out
}

func (b *Board) Len() int { return len(b.Msgs) }

// BoardHandle is one node's connection to the board.
type BoardHandle struct {
	b       *Board
	node    int
	ignIDs  map[string]struct{}
	ignOffs map[uint64]struct{}
	// faults, set by the scheduler before it grants the call
	Unavailable bool // Send fails, reads return nothing
	ReadLimit   int  // >0: a read returns at most this many messages (short read / lag)
	SendErrOnce bool // next Send fails after the gate (board unreachable), then heals
	// SendPartialOnce > 0: the next Send of more than that many messages gets that
	// many onto the board and then fails (FileStorage.Send and the node post a
	// submission message by message; the board goes away in between), then heals
	SendPartialOnce int
	// SendErrOnEvent: the next Send whose first message carries this event fails
	// (the board is unreachable exactly when the node publishes, say, a reconstruction), then heals
	SendErrOnEvent string
}

var _ storage.Storage = (*BoardHandle)(nil)

func (b *Board) Handle(node int) *BoardHandle {
	return &BoardHandle{b: b, node: node, ignIDs: map[string]struct{}{}, ignOffs: map[uint64]struct{}{}}
}

func (h *BoardHandle) Send(msgs ...storage.Message) error {
	key := ""
	if len(msgs) > 0 {
		key = msgs[0].Event
	}
	h.b.w.Gate("board.send", key)
	if h.SendErrOnEvent != "" && key == h.SendErrOnEvent {
		h.SendErrOnEvent = ""
		h.b.w.Stats.Fault("board-send-error-at-" + key)
		return errors.New("sim: board unreachable")
	}
	if h.Unavailable || h.SendErrOnce {
		h.SendErrOnce = false
		h.b.w.Stats.Fault("board-send-error")
		return errors.New("sim: board unreachable")
	}
	if k := h.SendPartialOnce; k > 0 && len(msgs) > k {
		h.SendPartialOnce = 0
		res := h.b.Append(h.node, msgs[:k]...)
		copy(msgs, res)
		h.b.w.Stats.Fault("board-send-error-after-part-of-a-submission")
		return errors.New("sim: board unreachable")
	}
	res := h.b.Append(h.node, msgs...)
	copy(msgs, res) // FileStorage.Send writes id and offset back into the slice
	return nil
}

func (h *BoardHandle) GetMessages(offset uint64) ([]storage.Message, error) {
	h.b.w.Gate("board.get", strconv.FormatUint(offset, 10))
	if h.Unavailable {
		h.b.w.Stats.Fault("board-read-empty")
		return nil, nil
	}
	var out []storage.Message
	for i := int(offset); i < len(h.b.Msgs); i++ {
		m := h.b.Msgs[i]
		if _, ok := h.ignIDs[m.ID]; ok {
			continue
		}
		if _, ok := h.ignOffs[m.Offset]; ok {
			continue
		}
		// hand out a deep copy: the node must not be able to alter the log
		m.Data = append([]byte(nil), m.Data...)
		m.Signature = append([]byte(nil), m.Signature...)
		out = append(out, m)
		if h.ReadLimit > 0 && len(out) >= h.ReadLimit {
			h.b.w.Stats.Fault("short-read")
			break
		}
	}
	return out, nil
}

func (h *BoardHandle) Close() error { return nil }

func (h *BoardHandle) IgnoreMessages(messages []string, useOffset bool) error {
	h.b.w.Gate("board.ignore", "")
	for _, m := range messages {
		if useOffset {
			o, err := strconv.ParseUint(m, 10, 64)
			if err != nil {
				return fmt.Errorf("failed to parse message offset:  %w", err)
			}
			h.ignOffs[o] = struct{}{}
			continue
		}
		h.ignIDs[m] = struct{}{}
	}
	return nil
}

func (h *BoardHandle) UnignoreMessages() {
	h.ignIDs = map[string]struct{}{}
	h.ignOffs = map[uint64]struct{}{}
}
