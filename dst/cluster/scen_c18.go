package cluster

import (
	"bytes"
	"crypto/ed25519"
	"encoding/base64"
	"encoding/json"
	"errors"
	"fmt"
	"os"
	"path/filepath"
	"sort"
	"strings"
	"time"

	"github.com/corestario/kyber/encrypt/ecies"
	"github.com/corestario/kyber/pairing/bls12381"

	"github.com/lidofinance/dc4bc/client/types"
	"github.com/lidofinance/dc4bc/fsm/types/requests"
	"github.com/lidofinance/dc4bc/storage"
)

var c18Kinds = []string{"contribution-blob-with-null-or-partial-entries", "field-deleted", "type-confused", "negative-int", "huge-int", "empty-array", "oversized-array",
	"short-id", "unknown-event", "unknown-round", "error-report-naming-nobody", "registered-key-of-odd-length", "junk-bytes-value", "truncated-bytes-value", "baked-range-negative", "baked-range-huge", "not-json", "null-value", "deep-nesting",
	"sealed-deal-mutated-inside", "identifier-not-a-file-name"}

// mutateJSON applies one structure-aware mutation to a JSON document.
func mutateJSON(w *World, data []byte, kind string) ([]byte, bool) {
	var v interface{}
	if json.Unmarshal(data, &v) != nil {
		return nil, false
	}
	// collect paths
	type ref struct {
		parent interface{}
		key    string
		idx    int
	}
	var refs []ref
	var walk func(p interface{})
	walk = func(p interface{}) {
		switch x := p.(type) {
		case map[string]interface{}:
			for _, k := range sortedKeys(x) {
				refs = append(refs, ref{parent: x, key: k})
				walk(x[k])
			}
		case []interface{}:
			for i := range x {
				refs = append(refs, ref{parent: x, idx: i})
				walk(x[i])
			}
		}
	}
	walk(v)
	get := func(r ref) interface{} {
		if m, ok := r.parent.(map[string]interface{}); ok {
			return m[r.key]
		}
		return r.parent.([]interface{})[r.idx]
	}
	set := func(r ref, val interface{}) {
		if m, ok := r.parent.(map[string]interface{}); ok {
			m[r.key] = val
		} else {
			r.parent.([]interface{})[r.idx] = val
		}
	}
	pick := func(pred func(interface{}) bool) (ref, bool) {
		var c []ref
		for _, r := range refs {
			if pred(get(r)) {
				c = append(c, r)
			}
		}
		if len(c) == 0 {
			return ref{}, false
		}
		return c[w.Tape.Choose(len(c), "path")], true
	}
	isNum := func(x interface{}) bool { _, ok := x.(float64); return ok }
	isStr := func(x interface{}) bool { _, ok := x.(string); return ok }
	isArr := func(x interface{}) bool { _, ok := x.([]interface{}); return ok }
	any := func(interface{}) bool { return true }
	switch kind {
	case "field-deleted":
		var c []ref
		for _, r := range refs {
			if _, ok := r.parent.(map[string]interface{}); ok {
				c = append(c, r)
			}
		}
		if len(c) == 0 {
			return nil, false
		}
		r := c[w.Tape.Choose(len(c), "path")]
		delete(r.parent.(map[string]interface{}), r.key)
	case "type-confused":
		r, ok := pick(any)
		if !ok {
			return nil, false
		}
		switch get(r).(type) {
		case float64:
			set(r, "17")
		case string:
			set(r, 17)
		case []interface{}:
			set(r, map[string]interface{}{"0": 1})
		case map[string]interface{}:
			set(r, []interface{}{1, 2})
		default:
			set(r, []interface{}{})
		}
	case "negative-int":
		r, ok := pick(isNum)
		if !ok {
			return nil, false
		}
		set(r, []interface{}{-1, -2147483648, -9223372036854775808}[w.Tape.Choose(3, "neg")])
	case "huge-int":
		r, ok := pick(isNum)
		if !ok {
			return nil, false
		}
		set(r, []interface{}{2147483647, 4294967296, 9223372036854775807, 1e30}[w.Tape.Choose(4, "huge")])
	case "empty-array":
		r, ok := pick(isArr)
		if !ok {
			return nil, false
		}
		set(r, []interface{}{})
	case "oversized-array":
		r, ok := pick(isArr)
		if !ok {
			return nil, false
		}
		a := get(r).([]interface{})
		if len(a) == 0 {
			return nil, false
		}
		var big []interface{}
		for len(big) < 300 {
			big = append(big, a[len(big)%len(a)])
		}
		set(r, big)
	case "short-id", "junk-bytes-value", "truncated-bytes-value":
		r, ok := pick(isStr)
		if !ok {
			return nil, false
		}
		s := get(r).(string)
		switch kind {
		case "short-id":
			set(r, s[:min(len(s), w.Tape.Choose(3, "short"))])
		case "junk-bytes-value":
			set(r, "AAECAwQFBgcICQ==") // valid base64, junk content (invalid curve point / ciphertext)
		default:
			if len(s) > 8 {
				set(r, s[:4*(len(s)/8)])
			} else {
				set(r, "")
			}
		}
	case "null-value":
		r, ok := pick(any)
		if !ok {
			return nil, false
		}
		set(r, nil)
	case "deep-nesting":
		r, ok := pick(any)
		if !ok {
			return nil, false
		}
		var d interface{} = 1
		for i := 0; i < 200; i++ {
			d = []interface{}{d}
		}
		set(r, d)
	case "not-json":
		return []byte(`{"ParticipantId": 0,`), true
	default:
		return nil, false
	}
	out, err := json.Marshal(v)
	if err != nil {
		return nil, false
	}
	return out, true
}

// mutateStructural produces a properly signed but malformed variant of a
// genuine message (signed with the key of the node that sent the original, so
// that it gets past authentication).
func mutateStructural(w *World, m storage.Message, by int, kind string) (storage.Message, bool) {
	x := m
	switch kind {
	case "unknown-event":
		x.Event = []string{"event_unknown", "", "event_signing_restart", "event_dkg_init_process", "state_dkg_commits_await_confirmations"}[w.Tape.Choose(5, "ev")]
	case "unknown-round":
		x.DkgRoundID = []string{"", "zz", strings.Repeat("ab", 32), m.DkgRoundID[:8]}[w.Tape.Choose(4, "round")]
	case "registered-key-of-odd-length":
		// an opening proposal (nobody authenticates it) that registers a communication
		// key of a length no ed25519 key has for one participant; that participant's
		// later, genuinely signed messages then meet this registered key
		if m.Event != "event_sig_proposal_init" {
			return x, false
		}
		var req map[string]interface{}
		if json.Unmarshal(m.Data, &req) != nil {
			return x, false
		}
		ps, _ := req["Participants"].([]interface{})
		if len(ps) == 0 {
			return x, false
		}
		p, _ := ps[w.Tape.Choose(len(ps), "oddKeyWho")].(map[string]interface{})
		if p == nil {
			return x, false
		}
		kb := make([]byte, []int{10, 16, 31, 33, 64}[w.Tape.Choose(5, "oddKeyLen")])
		for i := range kb {
			kb[i] = byte(w.Tape.Choose(256, "kb"))
		}
		p["PubKey"] = base64.StdEncoding.EncodeToString(kb)
		x.Data, _ = json.Marshal(req)
	case "error-report-naming-nobody":
		// a well-formed failure report of the step the genuine message belongs
		// to, naming a participant number nobody has
		ev, ok := map[string]string{
			"event_sig_proposal_confirm_by_participant": "event_sig_proposal_decline_by_participant",
			"event_dkg_commit_confirm_received":         "event_dkg_commit_confirm_canceled_by_error",
			"event_dkg_deal_confirm_received":           "event_dkg_deal_confirm_canceled_by_error",
			"event_dkg_response_confirm_received":       "event_dkg_response_confirm_canceled_by_error",
			"event_dkg_master_key_confirm_received":     "event_dkg_master_key_confirm_canceled_by_error",
			"event_signing_partial_sign_received":       "event_signing_partial_sign_error_received",
		}[m.Event]
		if !ok {
			return x, false
		}
		x.Event = ev
		x.RecipientAddr = ""
		pid := []int{len(w.Nodes), len(w.Nodes) + 7, -1, 1 << 31, 255}[w.Tape.Choose(5, "nobody")]
		x.Data, _ = json.Marshal(requests.DKGProposalConfirmationErrorRequest{ParticipantId: pid, Error: requests.NewFSMError(errors.New("made up")), CreatedAt: time.Now()})
	case "partial-signature-for-unknown-message":
		// a participant's answer to the running batch that also (or only) carries a
		// partial signature under a message identifier the batch does not contain
		if m.Event != "event_signing_partial_sign_received" {
			return x, false
		}
		var req map[string]interface{}
		if json.Unmarshal(m.Data, &req) != nil {
			return x, false
		}
		ps, _ := req["PartialSigns"].([]interface{})
		if len(ps) == 0 {
			return x, false
		}
		first, _ := ps[0].(map[string]interface{})
		if first == nil {
			return x, false
		}
		extra := map[string]interface{}{}
		for k, v := range first {
			extra[k] = v
		}
		extra["MessageID"] = []string{"no-such-message", "", fmt.Sprint(first["MessageID"]) + " "}[w.Tape.Choose(3, "unknownId")]
		if w.Tape.Bool(1, 2, "inPlace") {
			ps[w.Tape.Choose(len(ps), "which")] = extra
		} else {
			ps = append(ps, extra)
		}
		req["PartialSigns"] = ps
		x.Data, _ = json.Marshal(req)
	case "baked-range-negative", "baked-range-huge":
		if m.Event != "event_signing_start" {
			return x, false
		}
		var req map[string]interface{}
		if json.Unmarshal(m.Data, &req) != nil {
			return x, false
		}
		rs, re := -1-w.Tape.Choose(5, "rs"), 1+w.Tape.Choose(3, "re")
		if kind == "baked-range-huge" {
			rs, re = 18630, 18640+w.Tape.Choose(1<<20, "re")
			if w.Tape.Bool(1, 2, "atTheEdge") {
				// positions right at the end of the list (18632 entries; the embedded
				// text ends with a newline, so splitting it yields 18633 pieces)
				rs = []int{18630, 18631, 18632, 18633, 18634, 18635}[w.Tape.Choose(6, "edgeStart")]
				re = rs + 1 + w.Tape.Choose(2, "edgeLen")
			}
		}
		req["BatchID"] = fmt.Sprintf("c18-%d", len(w.Board.Msgs))
		req["SigningTasks"] = []interface{}{map[string]interface{}{"MessageID": "x", "RangeStart": rs, "RangeEnd": re}}
		x.Data, _ = json.Marshal(req)
	default:
		d, ok := mutateJSON(w, m.Data, kind)
		if !ok {
			return x, false
		}
		x.Data = d
	}
	x.Signature = ed25519.Sign(w.Nodes[by].Priv, x.Bytes())
	return x, true
}

func runC18(w *World, tier string) (bool, interface{}) {
	n, t := pickNT(w, tier)
	if n > 4 && tier != "thorough" {
		n = 4
		if t > n {
			t = n
		}
	}
	c := NewCluster(w, n)
	c.L.Faults.PermuteResults = true
	members := AllMembers(n)
	budget := 4 + w.Tape.Choose(5, "mutants")
	acceptedFiles := 0                // malformed operation files the machine answered with a success result
	refusedFor := map[string]string{} // machine|op id -> kind of the malformed variant that was refused just before the genuine file
	injected := 0
	judged := 0
	var kinds []string
	surface := w.Tape.Choose(3, "surface") // 0 board, 1 operation files, 2 API bodies
	reinitRounds := map[string]bool{}      // round ids named only by the adversary's reinitialisation messages
	carryReinit := w.Tape.Bool(1, 2, "carryAdversaryReinit")
	for _, op := range c.Ops {
		// in half of the runs the operators leave the adversary's reinitialisation
		// operations alone; in the other half they carry them to the machines
		// (one more input surface of the airgapped machine)
		op.Filter = func(o *types.Operation) bool { return carryReinit || !reinitRounds[o.DKGIdentifier] }
	}
	if surface == 0 {
		w.Board.PreAppend = append(w.Board.PreAppend, func(m storage.Message, by int) {
			if by < 0 || injected >= budget || !w.Tape.Bool(1, 3, "inject?") {
				return
			}
			kind := c18Kinds[w.Tape.Choose(len(c18Kinds), "kind")]
			if m.Event == "event_sig_proposal_init" && w.Tape.Bool(1, 2, "oddKey") {
				kind = "registered-key-of-odd-length"
			}
			if m.Event == "event_signing_partial_sign_received" && w.Tape.Bool(1, 3, "unknownMessage") {
				kind = "partial-signature-for-unknown-message"
			}
			if w.Tape.Bool(1, 6, "replayEarlier") {
				// a well-formed message at the wrong moment: an earlier genuine message of
				// the round posted again unchanged (duplicate confirmation, a proposal while
				// a batch is running, ...). Whenever the node refuses it, nothing may change.
				var cands []storage.Message
				for _, e := range w.Board.Msgs {
					if e.DkgRoundID == m.DkgRoundID && w.Board.Injected[e.Offset] == nil {
						cands = append(cands, e)
					}
				}
				if len(cands) == 0 {
					return
				}
				e := cands[w.Tape.Choose(len(cands), "earlier")]
				injected++
				kinds = append(kinds, "earlier-genuine-message-again@"+e.Event)
				w.Stats.Fault("malformed-earlier-genuine-message-again")
				w.Board.InjectMsg(e, &Inject{Kind: "earlier-genuine-message-again", Expect: "no-crash"})
				return
			}
			if m.Event != string(types.ReinitDKG) && m.Event != "signature_reconstructed" && w.Tape.Bool(1, 4, "viaReinit") {
				// the second unauthenticated door: a reinitialisation message for an
				// unused round id. Its embedded log (this round's genuine messages,
				// relabelled) is replayed with signature and sender checks off, so a
				// malformed message appended to it reaches the state machines directly;
				// or the envelope itself is malformed.
				id := freshRoundID(w, uint64(len(w.Board.Msgs)))
				parts, thr := reinitParticipants(w, m.DkgRoundID)
				log := relabelledLog(w, m.DkgRoundID, id)
				var env storage.Message
				how := ""
				switch w.Tape.Choose(5, "reinitHow") {
				case 4:
					// a log whose opening proposal is there but is not accepted (no threshold, no
					// participants left, undecodable, or addressed to some other node): no round comes
					// of it, so whatever follows - a broadcast signature first of all - belongs to no
					// round. Such a reinitialisation is refused and leaves nothing behind.
					var rest []storage.Message
					entry := []map[string]interface{}{{"File": "x", "BatchID": "some-batch", "MessageID": "some-msg", "SrcPayload": []byte("p"), "Signature": bytes.Repeat([]byte{7}, 96), "Username": w.Nodes[by].Name, "DKGRoundID": id}}
					sr := storage.Message{DkgRoundID: id, Event: "signature_reconstructed", SenderAddr: w.Nodes[by].Name}
					sr.Data, _ = json.Marshal(entry)
					why := ""
					for _, e := range log {
						if e.Event != "event_sig_proposal_init" {
							rest = append(rest, e)
							continue
						}
						x := e
						var req map[string]json.RawMessage
						_ = json.Unmarshal(e.Data, &req)
						switch w.Tape.Choose(4, "proposalRefusedBecause") {
						case 0:
							req["SigningThreshold"] = json.RawMessage("0")
							x.Data, _ = json.Marshal(req)
							why = "threshold-zero"
						case 1:
							req["Participants"] = json.RawMessage("[]")
							x.Data, _ = json.Marshal(req)
							why = "no-participants"
						case 2:
							x.Data = []byte("{\"Participants\":")
							why = "undecodable"
						default:
							x.RecipientAddr = "somebody else"
							why = "addressed-to-another-node"
						}
						rest = append(rest, x, sr)
					}
					env = reinitEnvelope(w, by, id, thr, parts, rest)
					how = "reinit-log-with-a-refused-opening-proposal/" + why
				case 3:
					// a log that never opens the round it names (the opening proposal is missing):
					// broadcast signatures and the round's other messages for a round that does
					// not exist. Such a reinitialisation is refused - and leaves nothing behind
					var rest []storage.Message
					entry := []map[string]interface{}{{"File": "x", "BatchID": "some-batch", "MessageID": "some-msg", "SrcPayload": []byte("p"), "Signature": bytes.Repeat([]byte{7}, 96), "Username": w.Nodes[by].Name, "DKGRoundID": id}}
					sr := storage.Message{DkgRoundID: id, Event: "signature_reconstructed", SenderAddr: w.Nodes[by].Name}
					sr.Data, _ = json.Marshal(entry)
					rest = append(rest, sr)
					for _, e := range log {
						if e.Event != "event_sig_proposal_init" {
							rest = append(rest, e)
						}
					}
					env = reinitEnvelope(w, by, id, thr, parts, rest)
					how = "reinit-log-without-its-opening-proposal"
				case 0:
					x, ok := mutateStructural(w, m, by, kind)
					if !ok || kind == "unknown-round" {
						return
					}
					x.DkgRoundID = id
					env = reinitEnvelope(w, by, id, thr, parts, append(log, x))
					how = "reinit-embedded/" + kind
				case 1:
					base, _ := json.Marshal(types.ReDKG{DKGID: id, Threshold: thr, Participants: parts, Messages: log})
					d, ok := mutateJSON(w, base, kind)
					if !ok {
						return
					}
					env = reinitEnvelopeRaw(w, by, id, d)
					how = "reinit-envelope/" + kind
				default:
					// well-formed log, odd envelope fields
					odd := []string{"", m.DkgRoundID, "zz", id}[w.Tape.Choose(4, "oddId")]
					var ps []types.Participant
					switch w.Tape.Choose(3, "oddParts") {
					case 0:
						ps = nil
					case 1:
						ps = append(append([]types.Participant{}, parts...), types.Participant{Name: "mallory"})
					default:
						ps = parts
					}
					env = reinitEnvelope(w, by, odd, []int{thr, 0, -1, 1 << 30}[w.Tape.Choose(4, "oddThr")], ps, log)
					env.DkgRoundID = id
					how = "reinit-odd-fields"
					id = odd
				}
				injected++
				kinds = append(kinds, how+"@"+m.Event)
				w.Stats.Fault("malformed-via-reinit")
				if id != m.DkgRoundID {
					reinitRounds[id] = true
				}
				w.Board.InjectMsg(env, &Inject{Kind: how, Expect: "no-crash"})
				return
			}
			x, ok := mutateStructural(w, m, by, kind)
			if !ok {
				return
			}
			injected++
			kinds = append(kinds, kind+"@"+m.Event)
			w.Stats.Fault("malformed-" + kind)
			w.Board.InjectMsg(x, &Inject{Kind: kind, Expect: "no-crash"})
			if kind == "registered-key-of-odd-length" {
				// ... and somebody posts a message in the name of every participant of that
				// proposal (whoever got the odd key cannot do so through its own node)
				var req requests.SignatureProposalParticipantsListRequest
				if json.Unmarshal(x.Data, &req) == nil {
					for pid, p := range req.Participants {
						if p == nil || len(p.PubKey) == ed25519.PublicKeySize {
							continue
						}
						y := storage.Message{DkgRoundID: x.DkgRoundID, Event: "event_sig_proposal_confirm_by_participant", SenderAddr: p.Username}
						y.Data, _ = json.Marshal(map[string]interface{}{"ParticipantId": pid, "CreatedAt": time.Now()})
						y.Signature = ed25519.Sign(w.Nodes[by].Priv, y.Bytes())
						w.Board.InjectMsg(y, &Inject{Kind: "message-in-the-name-of-the-odd-key-participant", Expect: "no-crash"})
					}
				}
			}
		})
	}
	c.L.OnInjectedConsumed = func(nd *HotNode, off uint64, inj *Inject, before, after map[string][]byte, failed bool, pan string) {
		judged++
		w.Abstract["board/"+inj.Event+"/"+inj.Kind] = true
		if pan != "" {
			w.Fail("C18", "poller-panic/"+inj.Kind+"/"+inj.Event, fmt.Sprintf("%s: the polling loop died while handling a %s variant of %s (offset %d): %s", nd.Name, inj.Kind, inj.Event, off, firstLineOf(pan)))
			return
		}
		if failed {
			if d := snapDiff(before, after); len(d) > 0 {
				w.Fail("C18", "rejected-message-changed-state/"+inj.Kind+"/"+inj.Event+"/"+strings.Join(d, ","),
					fmt.Sprintf("%s rejected the %s variant of %s (offset %d) but its durable state changed in keys %v", nd.Name, inj.Kind, inj.Event, off, d))
			}
			w.Stats.Probe("rejected-message-judged")
		} else {
			w.Stats.Probe("malformed-message-accepted-or-skipped")
		}
	}
	// operation-file and API surfaces are exercised through the operator's tamper hook
	for i, op := range c.Ops {
		i, op := i, op
		if surface == 1 {
			op.PreAir = func(o *types.Operation, opJSON []byte) {
				if injected >= budget || !w.Tape.Bool(1, 3, "inject?") {
					return
				}
				kind := c18Kinds[w.Tape.Choose(len(c18Kinds), "kind")]
				var d []byte
				ok := false
				switch kind {
				case "contribution-blob-with-null-or-partial-entries":
					// what another participant published (its commitments, its responses) is an opaque
					// blob to the nodes and reaches the machine inside the next step's operation file:
					// a list holding null, or an entry with most of its fields missing
					d, ok = mutateContributionBlob(w, opJSON)
				case "sealed-deal-mutated-inside":
					// structure-aware mutation under the encryption layer: a deal addressed to this
					// machine is opened with its key (hook H2), mutated as JSON and sealed again
					d, ok = mutateSealedDeal(w, w.Airs[i], opJSON)
				case "identifier-not-a-file-name":
					// the machine names its result file after the round id (and, for a signing
					// operation, the batch id) it finds in the operation file: ids holding a path
					// separator, a parent-directory step, a NUL byte or more bytes than a file
					// name may have. Whatever the machine makes of such a round, a refusal must
					// not leave anything behind
					var om map[string]json.RawMessage
					if json.Unmarshal(opJSON, &om) == nil {
						var id string
						_ = json.Unmarshal(om["DKGIdentifier"], &id)
						bad := []string{"a/" + id, "../" + id, "ab\x00" + id, id[:min(len(id), 3)] + "/" + id, "/" + id}[w.Tape.Choose(5, "badId")]
						var pl []byte
						var plm map[string]json.RawMessage
						if strings.HasPrefix(string(o.Type), "state_signing") && json.Unmarshal(om["Payload"], &pl) == nil && json.Unmarshal(pl, &plm) == nil && w.Tape.Bool(2, 3, "batchId") {
							var b string
							_ = json.Unmarshal(plm["BatchID"], &b)
							bb := []string{"x/" + b, b + "/../../x", strings.Repeat("b", 300), b + "\x00"}[w.Tape.Choose(4, "badBatch")]
							plm["BatchID"], _ = json.Marshal(bb)
							npl, _ := json.Marshal(plm)
							om["Payload"], _ = json.Marshal(npl)
						} else {
							om["DKGIdentifier"], _ = json.Marshal(bad)
						}
						d, _ = json.Marshal(om)
						ok = true
					}
				case "unknown-event", "unknown-round", "baked-range-negative", "baked-range-huge":
					var om map[string]interface{}
					if json.Unmarshal(opJSON, &om) == nil {
						switch kind {
						case "unknown-event":
							om["Type"] = "state_unknown"
						case "unknown-round":
							om["DKGIdentifier"] = "zz"
						default:
							om["Type"] = "state_signing_await_partial_signs"
							rs, re := -3, 2
							if kind == "baked-range-huge" {
								rs, re = 18631, 1<<20
								if w.Tape.Bool(1, 2, "atTheEdge") {
									rs = []int{18630, 18631, 18632, 18633, 18634, 18635}[w.Tape.Choose(6, "edgeStart")]
									re = rs + 1 + w.Tape.Choose(2, "edgeLen")
								}
							}
							src, _ := json.Marshal([]map[string]interface{}{{"MessageID": "x", "RangeStart": rs, "RangeEnd": re}})
							pl, _ := json.Marshal(map[string]interface{}{"BatchID": "b", "SrcPayload": src})
							om["Payload"] = pl
						}
						d, _ = json.Marshal(om)
						ok = true
					}
				default:
					// mutate either the operation envelope or its payload
					if w.Tape.Bool(1, 2, "inner") {
						var om map[string]json.RawMessage
						if json.Unmarshal(opJSON, &om) == nil {
							var pl []byte
							if json.Unmarshal(om["Payload"], &pl) == nil {
								if md, ok2 := mutateJSON(w, pl, kind); ok2 {
									om["Payload"], _ = json.Marshal(md)
									d, _ = json.Marshal(om)
									ok = true
								}
							}
						}
					} else {
						d, ok = mutateJSON(w, opJSON, kind)
					}
				}
				if !ok {
					return
				}
				injected++
				kinds = append(kinds, kind+"@opfile:"+string(o.Type))
				w.Stats.Fault("malformed-" + kind)
				a := w.Airs[i]
				before, _ := a.M.SimSnapshot()
				files := len(a.ResultFiles())
				var perr error
				tk := w.Do(fmt.Sprintf("air[%d].malformed", i), -1, i, func() {
					_, _, perr = a.ProcessFile(d)
				})
				judged++
				w.Abstract["opfile/"+string(o.Type)+"/"+kind] = true
				if tk.panicV != nil {
					w.Fail("C18", "airgapped-panic/"+kind+"/"+string(o.Type), fmt.Sprintf("airgapped machine %d panicked on a %s variant of a %s operation file: %v @ %s", i, kind, o.Type, tk.panicV, panicSite(tk.panicStack)))
					tk.panicV = nil
					return
				}
				refusedNow := perr != nil
				if perr == nil {
					// an error result is the machine's way of refusing the step
					var ro types.Operation
					if fs := a.ResultFiles(); len(fs) > 0 {
						if b, e := os.ReadFile(resultPathOf(a, d)); e == nil && json.Unmarshal(b, &ro) == nil && !strings.Contains(string(ro.Event), "error") && !strings.Contains(string(ro.Event), "decline") {
							acceptedFiles++
						} else if e == nil {
							refusedNow = true
						}
					}
				}
				if refusedNow {
					refusedFor[fmt.Sprintf("%d|%s", i, o.ID)] = kind
				}
				if perr != nil {
					after, _ := a.M.SimSnapshot()
					if dd := snapDiff(before, after); len(dd) > 0 || len(a.ResultFiles()) != files {
						w.Fail("C18", "rejected-operation-file-changed-state/"+kind+"/"+string(o.Type), fmt.Sprintf("machine %d rejected the file (%v) but its database changed in %v / result files %d -> %d", i, perr, dd, files, len(a.ResultFiles())))
					}
					w.Stats.Probe("rejected-operation-file-judged")
				}
			}
		}
		if surface == 1 {
			op.OnResult = func(o *types.Operation, result []byte, rp *APIResult) {
				kind, was := refusedFor[fmt.Sprintf("%d|%s", i, o.ID)]
				if !was || result == nil {
					return
				}
				var ro types.Operation
				if json.Unmarshal(result, &ro) != nil {
					return
				}
				if strings.Contains(string(ro.Event), "error") {
					w.Fail("C18", "refused-operation-file-poisons-machine/"+string(o.Type)+"/"+kind,
						fmt.Sprintf("machine %d refused a %s variant of the %s operation file; the genuine file, fed right afterwards, is now answered with %s", i, kind, o.Type, ro.Event))
				} else {
					w.Stats.Probe("genuine-file-accepted-after-refused-variant")
				}
			}
		}
		if surface == 2 {
			op.PreSubmit = func(o *types.Operation, body []byte) {
				if injected >= budget || !w.Tape.Bool(1, 3, "inject?") {
					return
				}
				if w.Tape.Bool(1, 5, "badReset") {
					// a state reset whose target cannot be opened as a database (its parent is a
					// regular file / it is the database the node is running on): the request is
					// refused and the node goes on working on its old state
					nd := w.Nodes[i]
					target := []string{filepath.Join(nd.StateDir, "CURRENT", "sub"), nd.StateDir, "/proc/version/x"}[w.Tape.Choose(3, "badTarget")]
					rb, _ := json.Marshal(map[string]interface{}{"new_state_dbdsn": target, "use_offset": true, "messages": []string{}})
					before := nd.Snapshot()
					rep := w.CallAPI(nd, "malformed", "POST", "/resetState", rb)
					injected++
					judged++
					kinds = append(kinds, "reset-to-unusable-target@api")
					w.Stats.Fault("malformed-reset-to-unusable-target")
					if !rep.OK() && !rep.Crashed {
						if after := nd.Snapshot(); after == nil {
							w.Fail("C18", "refused-reset-left-node-without-state", fmt.Sprintf("%s refused the reset (%.100s) but can no longer read its state database", nd.Name, rep.ErrMsg))
						} else if dd := snapDiff(before, after); len(dd) > 0 {
							w.Fail("C18", "rejected-api-request-changed-state/reset/"+strings.Join(dd, ","), fmt.Sprintf("%s refused the reset but its state changed in %v", nd.Name, dd))
						}
						if off := w.CallAPI(nd, "getOffset", "GET", "/getOffset", nil); !off.OK() && !w.Failed() {
							w.Fail("C18", "refused-reset-left-node-unusable", fmt.Sprintf("%s refused the reset (%.100s); afterwards even /getOffset fails: %.100s", nd.Name, rep.ErrMsg, off.ErrMsg))
						}
					}
					return
				}
				kind := c18Kinds[w.Tape.Choose(len(c18Kinds), "kind")]
				d, ok := mutateJSON(w, body, kind)
				if !ok {
					return
				}
				injected++
				kinds = append(kinds, kind+"@api-submit:"+string(o.Type))
				w.Stats.Fault("malformed-" + kind)
				nd := w.Nodes[i]
				before := nd.Snapshot()
				blen := w.Board.Len()
				rep := w.CallAPI(nd, "malformed", "POST", "/handleProcessedOperationJSON", d)
				judged++
				w.Abstract["api/"+string(o.Type)+"/"+kind] = true
				if rep.Panic != "" {
					// net/http recovers handler panics: not process-terminating; counted
					w.Stats.Probe("api-handler-panic")
					nd.Panics = nil
				}
				if !rep.OK() && !rep.Crashed {
					if dd := snapDiff(before, nd.Snapshot()); len(dd) > 0 || w.Board.Len() != blen {
						w.Fail("C18", "rejected-api-request-changed-state/"+kind+"/"+string(o.Type)+"/"+strings.Join(dd, ","), fmt.Sprintf("%s answered the malformed request with an error (%.100s) but durable state changed in %v, board %d -> %d", nd.Name, rep.ErrMsg, dd, blen, w.Board.Len()))
					}
					w.Stats.Probe("rejected-api-request-judged")
				}
			}
		}
	}
	round, rep := c.StartDKG(w.Tape.Choose(n, "proposer"), t, members)
	if !rep.OK() {
		w.Fail("C18", "startdkg-rejected", rep.ErrMsg)
		return false, nil
	}
	ready := c.RunDKG(round, members, 500*n)
	if ready && !w.Failed() {
		before := len(c.Tr.Order)
		if w.Tape.Bool(1, 2, "bakedBatch") {
			c.ProposeBaked(w.Tape.Choose(n, "proposer"), round, 3, 5)
		} else {
			c.ProposeFiles(w.Tape.Choose(n, "proposer"), round, map[string][]byte{"c18": []byte("sign me")})
		}
		c.L.RunUntil(func() bool {
			return len(c.Tr.Order) > before && c.Tr.AllHaveBatch(c.Tr.LastBatch(), members) && c.AllInState(round, StIdle, members)
		}, 300*n)
	}
	if !w.Failed() {
		c.L.Quiesce(8)
	}
	for _, nd := range w.Nodes {
		if len(nd.Panics) > 0 && !w.Failed() {
			w.Fail("C18", "node-panic", strings.Join(nd.Panics, "; "))
		}
	}
	for _, nd := range w.Nodes {
		if nd.PollerEnded > 0 && !w.Failed() {
			w.Fail("C18", "polling-loop-ended", fmt.Sprintf("%s: Poll() returned by itself %d time(s): the daemon process ends (injected: %v)", nd.Name, nd.PollerEnded, kinds))
		}
	}
	for _, a := range w.Airs {
		if len(a.Panics) > 0 && !w.Failed() {
			w.Fail("C18", "airgapped-panic/in-ceremony", fmt.Sprintf("machine %d: %s", a.Idx, strings.Join(a.Panics, "; ")))
		}
	}
	sort.Strings(kinds)
	return judged > 0, map[string]interface{}{"n": n, "t": t, "surface": []string{"board", "operation-files", "api-bodies"}[surface], "injected": kinds, "judged": judged}
}

// panicSite extracts the innermost frames of the product from a stack trace.
func panicSite(stack string) string {
	var out []string
	lines := strings.Split(stack, "\n")
	for i := 0; i+1 < len(lines); i++ {
		l := strings.TrimSpace(lines[i+1])
		if strings.HasPrefix(l, "/repo/") || strings.Contains(l, "/corestario/kyber") {
			fn := lines[i]
			if j := strings.LastIndex(fn, "/"); j >= 0 {
				fn = fn[j+1:]
			}
			if j := strings.Index(fn, "("); j >= 0 {
				fn = fn[:j]
			}
			loc := l
			if j := strings.Index(loc, " +0x"); j >= 0 {
				loc = loc[:j]
			}
			loc = strings.TrimPrefix(loc, "/repo/")
			if j := strings.Index(loc, "/corestario/"); j >= 0 {
				loc = loc[j+1:]
			}
			out = append(out, fn+"@"+loc)
			if len(out) >= 4 {
				break
			}
		}
	}
	return strings.Join(out, " <- ")
}

// mutateContributionBlob replaces one participant's published contribution inside a
// deals-step (commitments) or master-key-step (responses) operation file.
func mutateContributionBlob(w *World, opJSON []byte) ([]byte, bool) {
	var om map[string]json.RawMessage
	if json.Unmarshal(opJSON, &om) != nil {
		return nil, false
	}
	var typ string
	_ = json.Unmarshal(om["Type"], &typ)
	field := map[string]string{"state_dkg_deals_await_confirmations": "DkgCommit", "state_dkg_master_key_await_confirmations": "DkgResponse"}[typ]
	if field == "" {
		return nil, false
	}
	var pl []byte
	if json.Unmarshal(om["Payload"], &pl) != nil {
		return nil, false
	}
	var entries []map[string]interface{}
	if json.Unmarshal(pl, &entries) != nil || len(entries) == 0 {
		return nil, false
	}
	blobs := []string{`[null]`, `[{"Index":1}]`, `[{"Response":null}]`, `[null,null]`, `null`, `[{}]`, `[{"Index":0,"Response":{}}]`}
	k := w.Tape.Choose(len(entries), "whoseContribution")
	entries[k][field] = base64.StdEncoding.EncodeToString([]byte(blobs[w.Tape.Choose(len(blobs), "blob")]))
	npl, _ := json.Marshal(entries)
	om["Payload"], _ = json.Marshal(npl)
	out, _ := json.Marshal(om)
	return out, true
}

// mutateSealedDeal rewrites one DkgDeal entry of a responses-step operation file.
func mutateSealedDeal(w *World, a *AirNode, opJSON []byte) ([]byte, bool) {
	var om map[string]json.RawMessage
	if json.Unmarshal(opJSON, &om) != nil {
		return nil, false
	}
	var typ string
	_ = json.Unmarshal(om["Type"], &typ)
	if typ != "state_dkg_responses_await_confirmations" {
		return nil, false
	}
	var pl []byte
	if json.Unmarshal(om["Payload"], &pl) != nil {
		return nil, false
	}
	var entries []map[string]interface{}
	if json.Unmarshal(pl, &entries) != nil || len(entries) == 0 {
		return nil, false
	}
	suite := bls12381.NewBLS12381Suite(nil)
	for _, k := range permOf(w, len(entries)) {
		b64, _ := entries[k]["DkgDeal"].(string)
		ct, err := base64.StdEncoding.DecodeString(b64)
		if err != nil {
			continue
		}
		pt, err := a.M.SimDecrypt(ct)
		if err != nil {
			continue // the self-confirmation or a deal for somebody else
		}
		inner := []string{"negative-int", "huge-int", "null-value", "field-deleted", "type-confused", "junk-bytes-value", "truncated-bytes-value", "empty-array"}
		md, ok := mutateJSON(w, pt, inner[w.Tape.Choose(len(inner), "innerKind")])
		if !ok {
			continue
		}
		enc, err := ecies.Encrypt(suite, a.M.GetPubKey(), md, suite.Hash)
		if err != nil {
			continue
		}
		entries[k]["DkgDeal"] = base64.StdEncoding.EncodeToString(enc)
		npl, _ := json.Marshal(entries)
		om["Payload"], _ = json.Marshal(npl)
		out, _ := json.Marshal(om)
		return out, true
	}
	return nil, false
}

func firstKind(kinds []string) string {
	if len(kinds) == 0 {
		return "none"
	}
	return kinds[0]
}

// resultPathOf returns the result file a (possibly malformed) operation file maps to.
func resultPathOf(a *AirNode, opJSON []byte) string {
	var o types.Operation
	if json.Unmarshal(opJSON, &o) != nil {
		return ""
	}
	defer func() { _ = recover() }()
	return a.ResultDir + "/" + o.Filename() + "_result.json"
}

func firstLineOf(s string) string {
	if i := strings.IndexByte(s, '\n'); i >= 0 {
		return s[:i]
	}
	return s
}

func init() {
	Register(&Scenario{Prop: "C18", Name: "C18", Run: runC18})
}

var _ = os.Remove
