package cluster

import (
	"crypto/sha256"
	"encoding/json"
	"fmt"
	"os"
	"os/exec"
	"regexp"
	"runtime"
	"sort"
	"strings"

	"github.com/lidofinance/dc4bc/client/types"
	spf "github.com/lidofinance/dc4bc/fsm/state_machines/signature_proposal_fsm"
)

var tsRe = regexp.MustCompile(`\d{4}-\d\d-\d\dT\d\d:\d\d:\d\d(\.\d+)?(Z|[+-]\d\d:\d\d)`)

var uuidRe = regexp.MustCompile(`[0-9a-f]{8}-[0-9a-f]{4}-[0-9a-f]{4}-[0-9a-f]{4}-[0-9a-f]{12}`)
var msgOffRe = regexp.MustCompile(`"offset":\d+`)

// maskTimes removes what legitimately differs between two executions of the
// same logical history: timestamps, random message ids, and the board offsets
// copied into retired operations.
func maskTimes(b []byte) string {
	s := tsRe.ReplaceAllString(string(b), "T")
	s = uuidRe.ReplaceAllString(s, "U")
	return msgOffRe.ReplaceAllString(s, `"offset":N`)
}

// outcome of one execution of (API request, one poll tick) from a checkpoint
type raceOutcome struct {
	snap    string // masked durable state
	reply   string // API reply class
	appends string // multiset of board appends
	pending string
	detail  map[string]string
}

func (o raceOutcome) key() string { return o.snap + "\n#" + o.reply + "\n#" + o.appends }

func copyDir(src, dst string) error {
	_ = os.RemoveAll(dst)
	return exec.Command("cp", "-a", src, dst).Run()
}

// maskOps renders an operation map (pool or retired list) with the times masked
// also where they sit inside the base64 payload of a result message, and without
// the signatures computed over such payloads: an operation created while the
// log is re-read carries the time of that reading.
func maskOps(v []byte) string {
	var ops map[string]*types.Operation
	if json.Unmarshal(v, &ops) != nil {
		return maskTimes(v)
	}
	var ids []string
	for id := range ops {
		ids = append(ids, id)
	}
	sort.Strings(ids)
	var parts []string
	for _, id := range ids {
		o := ops[id]
		var sb strings.Builder
		shown := id
		if maskOpIDs {
			// an identifier hashes the payload; a payload that embeds operations
			// created while the tick ran (reinit) carries the time of that tick
			shown = "ID"
			if o != nil && o.ID != id {
				shown = "ID(differs from its key)"
			}
		}
		if o == nil {
			parts = append(parts, shown+"=null;")
			continue
		}
		fmt.Fprintf(&sb, "%s={type=%s round=%s event=%s to=%s payload=%s extra=%x msgs=[", shown, o.Type, o.DKGIdentifier, o.Event, o.To, maskTimes(o.Payload), o.ExtraData)
		for _, m := range o.ResultMsgs {
			fmt.Fprintf(&sb, "(%s %s>%s %s signed=%v %s)", m.Event, m.SenderAddr, m.RecipientAddr, m.DkgRoundID, len(m.Signature) > 0, maskTimes(m.Data))
		}
		sb.WriteString("]};")
		parts = append(parts, sb.String())
	}
	if maskOpIDs {
		sort.Strings(parts)
	}
	return strings.Join(parts, "")
}

// maskOpIDs: operation identifiers are not compared (round-trip races, where
// the operation is created anew in every execution from the checkpoint)
var maskOpIDs bool

// canonSnap renders the durable state canonically with times masked; nested
// JSON-in-JSON (the fsm_state blob holds base64 dumps) is decoded first.
func canonSnap(s map[string][]byte) (string, map[string]string) {
	det := map[string]string{}
	var ks []string
	for k := range s {
		ks = append(ks, k)
	}
	sort.Strings(ks)
	var sb strings.Builder
	for _, k := range ks {
		v := s[k]
		txt := ""
		if k == Topic+"_fsm_state" {
			var all map[string][]byte
			if json.Unmarshal(v, &all) == nil {
				var rs []string
				for r := range all {
					rs = append(rs, r)
				}
				sort.Strings(rs)
				for _, r := range rs {
					txt += r[:8] + "=" + maskTimes(all[r]) + ";"
				}
			} else {
				txt = maskTimes(v)
			}
		} else if k == offsetKey {
			txt = fmt.Sprintf("%x", v)
		} else if k == Topic+"_operations" || k == Topic+"_deleted_operations" {
			txt = maskOps(v)
		} else {
			txt = maskTimes(v)
		}
		det[canonKey(k)] = txt
		fmt.Fprintf(&sb, "%s=%x\n", canonKey(k), sha256.Sum256([]byte(txt)))
	}
	return sb.String(), det
}

type raceSpec struct {
	kind   string // submit | approve | reset
	method string
	path   string
	body   []byte
	msgs   int // messages the tick will see
	// afterReset: the running process was reset (through its API) to an empty
	// state database just before; the tick then re-reads the log from its start
	afterReset bool
}

func runC14(w *World, tier string) (bool, interface{}) {
	n := 2 + w.Tape.Choose(2, "n")
	t := 2 + w.Tape.Choose(n-1, "t")
	c := NewCluster(w, n)
	c.L.Faults.PermuteResults = true
	members := AllMembers(n)
	v := w.Tape.Choose(n, "victim")
	nd := w.Nodes[v]
	wantKind := []string{"submit", "submit", "submit", "approve", "reset", "roundtrip"}[w.Tape.Choose(6, "kind")]
	raceAfter := w.Tape.Choose(70*n, "raceAfterSteps")
	round, rep := c.StartDKG(w.Tape.Choose(n, "proposer"), t, members)
	if !rep.OK() {
		w.Fail("C14", "startdkg-rejected", rep.ErrMsg)
		return false, nil
	}
	// often a second round of the same participants runs on the same nodes, so
	// that operations of one round are answered while messages of the other
	// round create new ones
	round2 := ""
	second := w.Tape.Bool(1, 2, "secondRound")
	secondAt := w.Tape.Choose(40*n, "secondAt")
	proposed := false
	var spec *raceSpec
	// the operator of v prepares a result but does not submit it; v's poller is held back
	var prepared []byte
	var preparedOp *types.Operation
	c.Ops[v].Submit = func(o *types.Operation, body []byte) *APIResult {
		if spec == nil && wantKind == "submit" && w.Steps >= raceAfter {
			prepared, preparedOp = body, o
			return &APIResult{ErrMsg: "held for the race"}
		}
		return w.CallAPI(nd, "submit", "POST", "/handleProcessedOperationJSON", body)
	}
	c.Ops[v].Approve = func(o *types.Operation, body []byte) *APIResult {
		if spec == nil && wantKind == "approve" {
			prepared, preparedOp = body, o
			return &APIResult{ErrMsg: "held for the race"}
		}
		return w.CallAPI(nd, "approve", "POST", "/approveDKGParticipation", body)
	}
	for steps := 0; steps < 900*n && spec == nil && !w.Failed(); steps++ {
		if wantKind == "roundtrip" && w.Steps >= raceAfter {
			// the answer to an operation the racing tick itself creates (any step of the
			// ceremony): hold the victim until something waits for it, then race
			c.L.PausedPoll[v] = true
			c.L.PausedOp[v] = true
			if waiting := w.Board.Len() - int(nd.Offset()); waiting >= 1 && (waiting >= 3 || w.Tape.Bool(1, 3, "enough")) {
				if len(nd.PendingOps()) == 0 || w.Tape.Bool(1, 2, "withOtherOpsPending") {
					return roundTripAndJudge(w, nd, w.Airs[v], tier, n, t, "ordinary ceremony")
				}
			}
		}
		if prepared != nil || (wantKind == "reset" && w.Steps >= raceAfter) {
			// hold v's poller until 1-3 messages are waiting for it
			c.L.PausedPoll[v] = true
			c.L.PausedOp[v] = true
			waiting := w.Board.Len() - int(nd.Offset())
			if waiting >= 1 && (waiting >= 3 || w.Tape.Bool(1, 3, "enough")) {
				k := waiting
				if k > 3 {
					k = 3
				}
				switch wantKind {
				case "submit":
					spec = &raceSpec{kind: "submit:" + string(preparedOp.Type), method: "POST", path: "/handleProcessedOperationJSON", body: prepared, msgs: k}
				case "approve":
					spec = &raceSpec{kind: "approve", method: "POST", path: "/approveDKGParticipation", body: prepared, msgs: k}
					if w.Tape.Bool(1, 3, "afterReset") {
						spec.afterReset = true
						spec.msgs = 1 + w.Tape.Choose(2, "msgsAfterReset")
						w.Stats.Fault("race-on-a-freshly-reset-process")
					}
				case "reset":
					body, _ := json.Marshal(map[string]interface{}{"new_state_dbdsn": nd.StateDir + "_reset", "use_offset": true, "messages": []string{}})
					spec = &raceSpec{kind: "reset", method: "POST", path: "/resetState", body: body, msgs: k}
				}
				break
			}
		}
		if second && round2 == "" && w.Steps >= secondAt {
			w.Advance(2e9)
			r2, rep2 := c.StartDKG(w.Tape.Choose(n, "proposer2"), 2+w.Tape.Choose(n-1, "t2"), members)
			if rep2.OK() && r2 != round {
				round2 = r2
				w.Stats.Fault("multi-round")
			} else {
				second = false
			}
		}
		if !proposed && c.AllInState(round, StIdle, members) {
			proposed = true
			c.ProposeFiles(w.Tape.Choose(n, "proposer"), round, map[string][]byte{"c14": []byte("sign")})
		}
		if !c.L.Step() {
			w.Advance(1e9)
		}
		if proposed && len(c.Tr.Order) > 0 && c.Tr.AllHaveBatch(c.Tr.LastBatch(), members) {
			break
		}
	}
	if spec == nil || w.Failed() {
		return false, fmt.Sprintf("no race moment reached (kind %s)", wantKind)
	}
	return raceAndJudge(w, nd, spec, tier, n, t)
}

// raceAndJudge checkpoints the node, executes every serial order of (request,
// one tick over spec.msgs messages) from the checkpoint, then concurrent
// gate-level interleavings, and compares.
func raceAndJudge(w *World, nd *HotNode, spec *raceSpec, tier string, n, t int) (bool, interface{}) {
	// ---- checkpoint -----------------------------------------------------------
	if p := nd.inc.Poller; p.Parked() != nil {
		// the stalled poller sits at the start of a tick; stopping is clean
	}
	w.stopNode(nd, true)
	// from here on every state read/write also has a gate behind it, so a request
	// or the poller can be pre-empted between reading a blob and acting on it
	w.PostGates = w.Tape.Bool(1, 2, "postGates")
	ckpt := w.Path("ckpt_state")
	if err := copyDir(nd.StateDir, ckpt); err != nil {
		panic(err)
	}
	L0 := w.Board.Len()
	firstMsg := int(offsetOfDir(w, nd))
	if spec.afterReset {
		firstMsg = 0
	}
	var msgKinds []string
	for i := firstMsg; i < firstMsg+spec.msgs && i < L0; i++ {
		msgKinds = append(msgKinds, w.Board.Msgs[i].Event)
	}
	kindName := spec.kind
	if spec.afterReset {
		kindName += "-after-reset"
	}
	pairKey := kindName + " x " + strings.Join(msgKinds, ",")
	w.Abstract[pairKey] = true
	restore := func() {
		if nd.inc != nil {
			w.stopNode(nd, false)
		}
		_ = copyDir(ckpt, nd.StateDir)
		_ = os.RemoveAll(nd.StateDir + "_reset")
		w.Board.Msgs = w.Board.Msgs[:L0]
		nd.Handle.UnignoreMessages()
		if err := w.StartNode(nd); err != nil {
			panic(err)
		}
		if spec.afterReset {
			_ = os.RemoveAll(nd.StateDir + "_pre")
			body, _ := json.Marshal(map[string]interface{}{"new_state_dbdsn": nd.StateDir + "_pre", "use_offset": true, "messages": []string{}})
			if rp := w.CallAPI(nd, "reset", "POST", "/resetState", body); !rp.OK() {
				panic("pre-race reset refused: " + rp.ErrMsg)
			}
		}
	}
	collect := func(reply *APIResult) raceOutcome {
		var o raceOutcome
		snap, _ := nd.inc.real.SimSnapshot()
		o.snap, o.detail = canonSnap(snap)
		switch {
		case reply == nil:
			o.reply = "none"
		case reply.Panic != "":
			o.reply = "panic"
		case reply.OK():
			o.reply = "ok"
		default:
			o.reply = "error"
		}
		var ap []string
		for _, m := range w.Board.Msgs[L0:] {
			ap = append(ap, fmt.Sprintf("%s>%s:%x", m.Event, m.RecipientAddr, sha256.Sum256([]byte(maskTimes(m.Data))))[:60])
		}
		sort.Strings(ap)
		o.appends = strings.Join(ap, "|")
		var ps []string
		for _, p := range nd.PendingOps() {
			ps = append(ps, string(p.Type))
		}
		o.pending = strings.Join(ps, ",")
		return o
	}
	tickOnce := func(limit int) {
		w.Advance(1e9)
		if p := nd.inc.Poller; p.Parked() != nil {
			nd.Handle.ReadLimit = limit
			w.RunPollTick(p)
			nd.Handle.ReadLimit = 0
		}
	}
	// ---- serial orders: the request before the tick, after it, or at any message boundary inside it
	serial := map[string]string{}
	var serialOut []raceOutcome
	for pos := 0; pos <= spec.msgs; pos++ {
		restore()
		if pos > 0 {
			tickOnce(pos)
		}
		reply := w.CallAPI(nd, "race", spec.method, spec.path, spec.body)
		if pos < spec.msgs {
			if strings.HasPrefix(spec.kind, "reset") {
				// after a reset the next tick starts from offset 0 of the new state
				tickOnce(0)
			} else {
				tickOnce(spec.msgs - pos)
			}
		}
		o := collect(reply)
		serial[o.key()] = fmt.Sprintf("request after %d of %d messages", pos, spec.msgs)
		serialOut = append(serialOut, o)
	}
	// ---- concurrent executions: gate-level interleavings with <= 3 pre-emptions
	runs := 6
	if tier == "thorough" {
		runs = 16
	}
	schedules := map[string]bool{}
	for r := 0; r < runs && !w.Failed(); r++ {
		restore()
		var reply *APIResult
		api := w.SpawnAPI(nd, "race", spec.method, spec.path, spec.body, &reply)
		w.Advance(1e9) // the tick becomes due: the poller parks at its first gate
		poll := nd.inc.Poller
		nd.Handle.ReadLimit = spec.msgs
		// PCT-style: an initial runner, up to three pre-emption points over the joint gate sequence
		cur := []*Task{api, poll}[w.Tape.Choose(2, "first")]
		np := w.Tape.Choose(4, "preemptions")
		pre := map[int]bool{}
		for i := 0; i < np; i++ {
			pre[1+w.Tape.Choose(60, "preemptAt")] = true
		}
		pollTicks := 0
		sched := ""
		var lockBlocked *Task // a task waiting for a product lock held by the other (parked) task
		for g := 1; g < 4000; g++ {
			other := api
			if cur == api {
				other = poll
			}
			runnable := func(tk *Task) bool {
				if tk == lockBlocked {
					return false
				}
				p := tk.Parked()
				if p == nil {
					return false
				}
				if tk == poll && p.Point == "st.loadOffset" && pollTicks >= 1 {
					return false // exactly one tick
				}
				return true
			}
			if lockBlocked != nil && (lockBlocked.Done() || lockBlocked.Parked() != nil) {
				lockBlocked = nil // the lock was released: the waiter went on to its next gate
				w.settle()
			}
			if pre[g] && runnable(other) {
				cur = other
				w.Stats.Fault("preempt")
			}
			if !runnable(cur) {
				o2 := api
				if cur == api {
					o2 = poll
				}
				if !runnable(o2) {
					if lockBlocked != nil {
						// give the waiter time to get the lock and reach its next gate
						free := false
						for k := 0; k < 200000; k++ {
							if lockBlocked.Done() || lockBlocked.Parked() != nil {
								free = true
								break
							}
							runtime.Gosched()
						}
						if free {
							lockBlocked = nil
							w.settle()
							continue
						}
						w.Fail("C14", "deadlock/"+spec.kind, "a task waits for a product lock that is never released and the other task cannot run")
					}
					break
				}
				cur = o2
			}
			if cur == poll {
				if p := poll.Parked(); p != nil && p.Point == "st.loadOffset" {
					pollTicks++
				}
				sched += "p"
			} else {
				sched += "a"
			}
			if !w.GrantNB(cur) {
				lockBlocked = cur
				sched += "!"
			} else if lockBlocked == nil {
				w.settle()
			}
		}
		nd.Handle.ReadLimit = 0
		schedules[sched] = true
		rep := w.finishAPI(nd, api, reply)
		if poll.Done() {
			w.collectPanics(nd)
			if len(nd.Panics) > 0 {
				w.Fail("C14", "poller-panic-during-race/"+spec.kind, strings.Join(nd.Panics, "; "))
				break
			}
		}
		if strings.HasPrefix(spec.kind, "reset") && nd.inc != nil && !nd.inc.Poller.Done() {
			// a tick interrupted by a reset is followed by the next tick, as in the serial orders
			tickOnce(0)
		}
		o := collect(rep)
		if _, ok := serial[o.key()]; !ok {
			// describe the difference against the closest serial outcome
			best, bestN := 0, 1<<30
			for i, so := range serialOut {
				d := 0
				for k, v := range o.detail {
					if so.detail[k] != v {
						d++
					}
				}
				if so.reply != o.reply {
					d++
				}
				if so.appends != o.appends {
					d++
				}
				if d < bestN {
					best, bestN = i, d
				}
			}
			so := serialOut[best]
			var diffs []string
			for k, v := range o.detail {
				if so.detail[k] != v {
					diffs = append(diffs, k)
				}
			}
			for k := range so.detail {
				if _, ok := o.detail[k]; !ok {
					diffs = append(diffs, "-"+k)
				}
			}
			if so.reply != o.reply {
				diffs = append(diffs, "api-reply:"+so.reply+"->"+o.reply)
			}
			if so.appends != o.appends {
				diffs = append(diffs, "board-appends")
			}
			sort.Strings(diffs)
			where := ""
			for _, k := range diffs {
				if a, ok := so.detail[k]; ok && where == "" {
					where = "; " + k + ": " + firstDiff(a, o.detail[k])
				}
			}
			w.Fail("C14", "not-serializable/"+kindName+"/"+strings.Join(diffs, ","),
				fmt.Sprintf("request %s concurrent with one tick over [%s] (schedule %s): the outcome equals none of the %d serial orders; closest (request after %d messages) differs in %v; pending ops now [%s] vs [%s]%s", kindName, strings.Join(msgKinds, ","), compress(sched), len(serialOut), best, diffs, o.pending, so.pending, where))
		}
	}
	w.Stats.ProbeN("interleavings-executed", len(schedules))
	w.Stats.Probe("race-" + strings.SplitN(spec.kind, ":", 2)[0])
	_ = os.RemoveAll(ckpt)
	return true, map[string]interface{}{"n": n, "t": t, "request": spec.kind, "tick_messages": msgKinds, "serial_orders": len(serialOut), "distinct_serial_outcomes": len(serial), "distinct_schedules": len(schedules)}
}

// roundTripAndJudge races a poll tick with the request that answers an operation
// THE SAME TICK creates: the operator sees the new operation in the pool while
// the poller is still busy with the message that created it (parked at a gate a
// few store calls further on), carries it to the machine and submits the answer
// before the poller goes on. The request cannot be prepared in advance, so the
// serial orders are: tick up to a message boundary behind the creating message,
// complete round trip, rest of the tick. The machine is asked once; for the other
// executions from the checkpoint its answer is attached to the operation as that
// execution created it (the answer does not depend on identifiers or times).
func roundTripAndJudge(w *World, nd *HotNode, air *AirNode, tier string, n, t int, label string) (bool, interface{}) {
	w.stopNode(nd, true)
	w.PostGates = true
	maskOpIDs = true
	defer func() { maskOpIDs = false; w.PostGates = false }()
	ckpt := w.Path("ckpt_state_rt")
	if err := copyDir(nd.StateDir, ckpt); err != nil {
		panic(err)
	}
	L0 := w.Board.Len()
	firstMsg := int(offsetOfDir(w, nd))
	msgs := L0 - firstMsg
	if msgs > 3 {
		msgs = 3
	}
	if msgs < 1 {
		return false, "nothing waiting for the victim"
	}
	var msgKinds []string
	for i := firstMsg; i < firstMsg+msgs; i++ {
		msgKinds = append(msgKinds, w.Board.Msgs[i].Event)
	}
	restore := func() {
		if nd.inc != nil {
			w.stopNode(nd, false)
		}
		_ = copyDir(ckpt, nd.StateDir)
		w.Board.Msgs = w.Board.Msgs[:L0]
		nd.Handle.UnignoreMessages()
		if err := w.StartNode(nd); err != nil {
			panic(err)
		}
	}
	known := map[string]bool{}
	restore()
	for _, o := range nd.PendingOps() {
		known[o.ID] = true
	}
	newOp := func() *types.Operation {
		for _, o := range nd.PendingOps() {
			if !known[o.ID] && string(o.Type) != string(spf.StateAwaitParticipantsConfirmations) {
				return o
			}
		}
		return nil
	}
	collect := func(reply *APIResult) raceOutcome {
		var o raceOutcome
		snap, _ := nd.inc.real.SimSnapshot()
		o.snap, o.detail = canonSnap(snap)
		switch {
		case reply == nil:
			o.reply = "none"
		case reply.Panic != "":
			o.reply = "panic"
		case reply.OK():
			o.reply = "ok"
		default:
			o.reply = "error"
		}
		var ap []string
		for _, m := range w.Board.Msgs[L0:] {
			ap = append(ap, fmt.Sprintf("%s>%s:%x", m.Event, m.RecipientAddr, sha256.Sum256([]byte(maskTimes(m.Data))))[:60])
		}
		sort.Strings(ap)
		o.appends = strings.Join(ap, "|")
		var ps []string
		for _, p := range nd.PendingOps() {
			ps = append(ps, string(p.Type))
		}
		o.pending = strings.Join(ps, ",")
		return o
	}
	tickOnce := func(limit int) {
		w.Advance(1e9)
		if p := nd.inc.Poller; p.Parked() != nil {
			nd.Handle.ReadLimit = limit
			w.RunPollTick(p)
			nd.Handle.ReadLimit = 0
		}
	}
	// the machine's answer, asked for once
	var answer *types.Operation
	opType := ""
	answerFor := func(op *types.Operation) []byte {
		get := w.CallAPI(nd, "getOperation", "GET", "/getOperation?operationID="+q(op.ID), nil)
		if !get.OK() {
			return nil
		}
		if answer == nil {
			res, err := w.AirProcess(air, []byte(get.Result))
			if err != nil || res == nil {
				return nil
			}
			var ro types.Operation
			if json.Unmarshal(res, &ro) != nil {
				return nil
			}
			CanonicalResultMsgs(ro.ResultMsgs)
			answer = &ro
			opType = string(op.Type)
		}
		var fresh types.Operation
		if json.Unmarshal(get.Result, &fresh) != nil {
			return nil
		}
		fresh.Event = answer.Event
		fresh.ExtraData = answer.ExtraData
		fresh.ResultMsgs = answer.ResultMsgs
		body, _ := json.Marshal(fresh)
		return body
	}
	// ---- serial orders ---------------------------------------------------------
	serial := map[string]string{}
	var serialOut []raceOutcome
	for pos := 1; pos <= msgs; pos++ {
		if pos > 1 {
			restore()
		}
		tickOnce(pos)
		op := newOp()
		if op == nil {
			continue
		}
		body := answerFor(op)
		if body == nil {
			return false, "the machine gave no answer to the new operation"
		}
		reply := w.CallAPI(nd, "roundtrip", "POST", "/handleProcessedOperationJSON", body)
		if pos < msgs {
			tickOnce(msgs - pos)
		}
		o := collect(reply)
		serial[o.key()] = fmt.Sprintf("round trip after %d of %d messages", pos, msgs)
		serialOut = append(serialOut, o)
	}
	if len(serialOut) == 0 {
		_ = os.RemoveAll(ckpt)
		return false, fmt.Sprintf("the tick over [%s] creates no operation", strings.Join(msgKinds, ","))
	}
	kindName := "roundtrip:" + opType
	w.Abstract[kindName+" x "+strings.Join(msgKinds, ",")] = true
	// ---- concurrent executions: the round trip happens at a gate inside the tick
	runs := 8
	if tier == "thorough" {
		runs = 24
	}
	positions := map[string]bool{}
	for r := 0; r < runs && !w.Failed(); r++ {
		restore()
		w.Advance(1e9)
		poll := nd.inc.Poller
		nd.Handle.ReadLimit = msgs
		later := w.Tape.Choose(10, "gatesAfterTheOperationAppears")
		seenAt := -1
		started := false
		var api *Task
		var reply *APIResult
		where := ""
		for g := 0; g < 6000; g++ {
			p := poll.Parked()
			if p == nil || (started && p.Point == "st.loadOffset") {
				break
			}
			started = true
			if api == nil {
				if op := newOp(); op != nil {
					if seenAt < 0 {
						seenAt = g
					}
					if g-seenAt >= later {
						body := answerFor(op)
						if body == nil {
							break
						}
						where = p.Point + " " + canonKey(p.Key)
						w.Log.Add("round trip while the poller is parked at %s %s", p.Point, p.Key)
						w.Stats.Fault("preempt")
						api = w.SpawnAPI(nd, "roundtrip", "POST", "/handleProcessedOperationJSON", body, &reply)
						// the request runs as far as it can; where it needs a product lock the
						// parked poller holds, the poller moves on gate by gate until it is free
						for k := 0; k < 4000 && !api.Done(); k++ {
							if api.Parked() != nil {
								if w.GrantNB(api) {
									w.settle()
									continue
								}
							}
							// blocked on a lock: let the holder run one gate
							if pp := poll.Parked(); pp != nil && !(pp.Point == "st.loadOffset") {
								w.GrantNB(poll)
							}
							for j := 0; j < 200000; j++ {
								if api.Done() || api.Parked() != nil {
									break
								}
								runtime.Gosched()
							}
							if api.Done() || api.Parked() != nil {
								w.settle()
							}
						}
						continue
					}
				}
			}
			w.GrantNB(poll)
			w.settle()
		}
		nd.Handle.ReadLimit = 0
		if api == nil {
			// the operation appeared too late in the tick for the drawn distance: submit behind the tick
			if op := newOp(); op != nil {
				if body := answerFor(op); body != nil {
					reply = w.CallAPI(nd, "roundtrip", "POST", "/handleProcessedOperationJSON", body)
					where = "behind the tick"
				}
			}
		} else {
			reply = w.finishAPI(nd, api, reply)
		}
		positions[where] = true
		if poll.Done() {
			w.collectPanics(nd)
			if len(nd.Panics) > 0 {
				w.Fail("C14", "poller-panic-during-race/"+kindName, strings.Join(nd.Panics, "; "))
				break
			}
		}
		o := collect(reply)
		if _, ok := serial[o.key()]; !ok {
			best, bestN := 0, 1<<30
			for i, so := range serialOut {
				d := 0
				for k, v := range o.detail {
					if so.detail[k] != v {
						d++
					}
				}
				if so.reply != o.reply {
					d++
				}
				if so.appends != o.appends {
					d++
				}
				if d < bestN {
					best, bestN = i, d
				}
			}
			so := serialOut[best]
			var diffs []string
			for k, v := range o.detail {
				if so.detail[k] != v {
					diffs = append(diffs, k)
				}
			}
			for k := range so.detail {
				if _, ok := o.detail[k]; !ok {
					diffs = append(diffs, "-"+k)
				}
			}
			if so.reply != o.reply {
				diffs = append(diffs, "api-reply:"+so.reply+"->"+o.reply)
			}
			if so.appends != o.appends {
				diffs = append(diffs, "board-appends")
			}
			sort.Strings(diffs)
			first := ""
			for _, k := range diffs {
				if a, ok := so.detail[k]; ok && first == "" {
					first = "; " + k + ": " + firstDiff(a, o.detail[k])
				}
			}
			w.Fail("C14", "not-serializable/"+kindName+"/"+strings.Join(diffs, ","),
				fmt.Sprintf("the answer to the %s operation created by a tick over [%s], submitted while the poller was parked at %s: the outcome equals none of the %d serial orders; closest differs in %v; pending ops now [%s] vs [%s]%s", opType, strings.Join(msgKinds, ","), where, len(serialOut), diffs, o.pending, so.pending, first))
		}
	}
	w.Stats.ProbeN("interleavings-executed", len(positions))
	w.Stats.Probe("race-roundtrip")
	_ = os.RemoveAll(ckpt)
	return true, map[string]interface{}{"n": n, "t": t, "request": kindName, "tick_messages": msgKinds, "serial_orders": len(serialOut), "distinct_positions": len(positions), "label": label}
}

func compress(s string) string {
	if s == "" {
		return ""
	}
	var sb strings.Builder
	run, cnt := s[0], 0
	for i := 0; i <= len(s); i++ {
		if i < len(s) && s[i] == run {
			cnt++
			continue
		}
		fmt.Fprintf(&sb, "%c%d", run, cnt)
		if i < len(s) {
			run, cnt = s[i], 1
		}
	}
	return sb.String()
}

// offsetOfDir reads the offset stored in the (stopped) node's state directory copy.
func offsetOfDir(w *World, nd *HotNode) uint64 { return nd.DeadOffset }

func init() {
	Register(&Scenario{Prop: "C14", Name: "C14", Run: runC14})
}

var _ = spf.EventInitProposal
