package cluster

import (
	"crypto/sha256"
	"encoding/json"
	"fmt"
	"os"
	"os/exec"
	"regexp"
	"runtime"
	"sort"
	"strings"

	"github.com/lidofinance/dc4bc/client/types"
	spf "github.com/lidofinance/dc4bc/fsm/state_machines/signature_proposal_fsm"
)

var tsRe = regexp.MustCompile(`\d{4}-\d\d-\d\dT\d\d:\d\d:\d\d(\.\d+)?(Z|[+-]\d\d:\d\d)`)

var uuidRe = regexp.MustCompile(`[0-9a-f]{8}-[0-9a-f]{4}-[0-9a-f]{4}-[0-9a-f]{4}-[0-9a-f]{12}`)
var msgOffRe = regexp.MustCompile(`"offset":\d+`)

// maskTimes removes what legitimately differs between two executions of the
// same logical history: timestamps, random message ids, and the board offsets
// copied into retired operations.
func maskTimes(b []byte) string {
	s := tsRe.ReplaceAllString(string(b), "T")
	s = uuidRe.ReplaceAllString(s, "U")
	return msgOffRe.ReplaceAllString(s, `"offset":N`)
}

// outcome of one execution of (API request, one poll tick) from a checkpoint
type raceOutcome struct {
	snap    string // masked durable state
	reply   string // API reply class
	appends string // multiset of board appends
	pending string
	detail  map[string]string
}

func (o raceOutcome) key() string { return o.snap + "\n#" + o.reply + "\n#" + o.appends }

func copyDir(src, dst string) error {
	_ = os.RemoveAll(dst)
	return exec.Command("cp", "-a", src, dst).Run()
}

// maskOps renders an operation map (pool or retired list) with the times masked
// also where they sit inside the base64 payload of a result message, and without
// the signatures computed over such payloads: an operation created while the
// log is re-read carries the time of that reading.
func maskOps(v []byte) string {
	var ops map[string]*types.Operation
	if json.Unmarshal(v, &ops) != nil {
		return maskTimes(v)
	}
	var ids []string
	for id := range ops {
		ids = append(ids, id)
	}
	sort.Strings(ids)
	var sb strings.Builder
	for _, id := range ids {
		o := ops[id]
		if o == nil {
			sb.WriteString(id + "=null;")
			continue
		}
		fmt.Fprintf(&sb, "%s={type=%s round=%s event=%s to=%s payload=%s extra=%x msgs=[", id, o.Type, o.DKGIdentifier, o.Event, o.To, maskTimes(o.Payload), o.ExtraData)
		for _, m := range o.ResultMsgs {
			fmt.Fprintf(&sb, "(%s %s>%s %s signed=%v %s)", m.Event, m.SenderAddr, m.RecipientAddr, m.DkgRoundID, len(m.Signature) > 0, maskTimes(m.Data))
		}
		sb.WriteString("]};")
	}
	return sb.String()
}

// canonSnap renders the durable state canonically with times masked; nested
// JSON-in-JSON (the fsm_state blob holds base64 dumps) is decoded first.
func canonSnap(s map[string][]byte) (string, map[string]string) {
	det := map[string]string{}
	var ks []string
	for k := range s {
		ks = append(ks, k)
	}
	sort.Strings(ks)
	var sb strings.Builder
	for _, k := range ks {
		v := s[k]
		txt := ""
		if k == Topic+"_fsm_state" {
			var all map[string][]byte
			if json.Unmarshal(v, &all) == nil {
				var rs []string
				for r := range all {
					rs = append(rs, r)
				}
				sort.Strings(rs)
				for _, r := range rs {
					txt += r[:8] + "=" + maskTimes(all[r]) + ";"
				}
			} else {
				txt = maskTimes(v)
			}
		} else if k == offsetKey {
			txt = fmt.Sprintf("%x", v)
		} else if k == Topic+"_operations" || k == Topic+"_deleted_operations" {
			txt = maskOps(v)
		} else {
			txt = maskTimes(v)
		}
		det[canonKey(k)] = txt
		fmt.Fprintf(&sb, "%s=%x\n", canonKey(k), sha256.Sum256([]byte(txt)))
	}
	return sb.String(), det
}

type raceSpec struct {
	kind   string // submit | approve | reset
	method string
	path   string
	body   []byte
	msgs   int // messages the tick will see
	// afterReset: the running process was reset (through its API) to an empty
	// state database just before; the tick then re-reads the log from its start
	afterReset bool
}

func runC14(w *World, tier string) (bool, interface{}) {
	n := 2 + w.Tape.Choose(2, "n")
	t := 2 + w.Tape.Choose(n-1, "t")
	c := NewCluster(w, n)
	c.L.Faults.PermuteResults = true
	members := AllMembers(n)
	v := w.Tape.Choose(n, "victim")
	nd := w.Nodes[v]
	wantKind := []string{"submit", "submit", "submit", "approve", "reset"}[w.Tape.Choose(5, "kind")]
	raceAfter := w.Tape.Choose(70*n, "raceAfterSteps")
	round, rep := c.StartDKG(w.Tape.Choose(n, "proposer"), t, members)
	if !rep.OK() {
		w.Fail("C14", "startdkg-rejected", rep.ErrMsg)
		return false, nil
	}
	// often a second round of the same participants runs on the same nodes, so
	// that operations of one round are answered while messages of the other
	// round create new ones
	round2 := ""
	second := w.Tape.Bool(1, 2, "secondRound")
	secondAt := w.Tape.Choose(40*n, "secondAt")
	proposed := false
	var spec *raceSpec
	// the operator of v prepares a result but does not submit it; v's poller is held back
	var prepared []byte
	var preparedOp *types.Operation
	c.Ops[v].Submit = func(o *types.Operation, body []byte) *APIResult {
		if spec == nil && wantKind == "submit" && w.Steps >= raceAfter {
			prepared, preparedOp = body, o
			return &APIResult{ErrMsg: "held for the race"}
		}
		return w.CallAPI(nd, "submit", "POST", "/handleProcessedOperationJSON", body)
	}
	c.Ops[v].Approve = func(o *types.Operation, body []byte) *APIResult {
		if spec == nil && wantKind == "approve" {
			prepared, preparedOp = body, o
			return &APIResult{ErrMsg: "held for the race"}
		}
		return w.CallAPI(nd, "approve", "POST", "/approveDKGParticipation", body)
	}
	for steps := 0; steps < 900*n && spec == nil && !w.Failed(); steps++ {
		if prepared != nil || (wantKind == "reset" && w.Steps >= raceAfter) {
			// hold v's poller until 1-3 messages are waiting for it
			c.L.PausedPoll[v] = true
			c.L.PausedOp[v] = true
			waiting := w.Board.Len() - int(nd.Offset())
			if waiting >= 1 && (waiting >= 3 || w.Tape.Bool(1, 3, "enough")) {
				k := waiting
				if k > 3 {
					k = 3
				}
				switch wantKind {
				case "submit":
					spec = &raceSpec{kind: "submit:" + string(preparedOp.Type), method: "POST", path: "/handleProcessedOperationJSON", body: prepared, msgs: k}
				case "approve":
					spec = &raceSpec{kind: "approve", method: "POST", path: "/approveDKGParticipation", body: prepared, msgs: k}
					if w.Tape.Bool(1, 3, "afterReset") {
						spec.afterReset = true
						spec.msgs = 1 + w.Tape.Choose(2, "msgsAfterReset")
						w.Stats.Fault("race-on-a-freshly-reset-process")
					}
				case "reset":
					body, _ := json.Marshal(map[string]interface{}{"new_state_dbdsn": nd.StateDir + "_reset", "use_offset": true, "messages": []string{}})
					spec = &raceSpec{kind: "reset", method: "POST", path: "/resetState", body: body, msgs: k}
				}
				break
			}
		}
		if second && round2 == "" && w.Steps >= secondAt {
			w.Advance(2e9)
			r2, rep2 := c.StartDKG(w.Tape.Choose(n, "proposer2"), 2+w.Tape.Choose(n-1, "t2"), members)
			if rep2.OK() && r2 != round {
				round2 = r2
				w.Stats.Fault("multi-round")
			} else {
				second = false
			}
		}
		if !proposed && c.AllInState(round, StIdle, members) {
			proposed = true
			c.ProposeFiles(w.Tape.Choose(n, "proposer"), round, map[string][]byte{"c14": []byte("sign")})
		}
		if !c.L.Step() {
			w.Advance(1e9)
		}
		if proposed && len(c.Tr.Order) > 0 && c.Tr.AllHaveBatch(c.Tr.LastBatch(), members) {
			break
		}
	}
	if spec == nil || w.Failed() {
		return false, fmt.Sprintf("no race moment reached (kind %s)", wantKind)
	}
	return raceAndJudge(w, nd, spec, tier, n, t)
}

// raceAndJudge checkpoints the node, executes every serial order of (request,
// one tick over spec.msgs messages) from the checkpoint, then concurrent
// gate-level interleavings, and compares.
func raceAndJudge(w *World, nd *HotNode, spec *raceSpec, tier string, n, t int) (bool, interface{}) {
	// ---- checkpoint -----------------------------------------------------------
	if p := nd.inc.Poller; p.Parked() != nil {
		// the stalled poller sits at the start of a tick; stopping is clean
	}
	w.stopNode(nd, true)
	// from here on every state read/write also has a gate behind it, so a request
	// or the poller can be pre-empted between reading a blob and acting on it
	w.PostGates = w.Tape.Bool(1, 2, "postGates")
	ckpt := w.Path("ckpt_state")
	if err := copyDir(nd.StateDir, ckpt); err != nil {
		panic(err)
	}
	L0 := w.Board.Len()
	firstMsg := int(offsetOfDir(w, nd))
	if spec.afterReset {
		firstMsg = 0
	}
	var msgKinds []string
	for i := firstMsg; i < firstMsg+spec.msgs && i < L0; i++ {
		msgKinds = append(msgKinds, w.Board.Msgs[i].Event)
	}
	kindName := spec.kind
	if spec.afterReset {
		kindName += "-after-reset"
	}
	pairKey := kindName + " x " + strings.Join(msgKinds, ",")
	w.Abstract[pairKey] = true
	restore := func() {
		if nd.inc != nil {
			w.stopNode(nd, false)
		}
		_ = copyDir(ckpt, nd.StateDir)
		_ = os.RemoveAll(nd.StateDir + "_reset")
		w.Board.Msgs = w.Board.Msgs[:L0]
		nd.Handle.UnignoreMessages()
		if err := w.StartNode(nd); err != nil {
			panic(err)
		}
		if spec.afterReset {
			_ = os.RemoveAll(nd.StateDir + "_pre")
			body, _ := json.Marshal(map[string]interface{}{"new_state_dbdsn": nd.StateDir + "_pre", "use_offset": true, "messages": []string{}})
			if rp := w.CallAPI(nd, "reset", "POST", "/resetState", body); !rp.OK() {
				panic("pre-race reset refused: " + rp.ErrMsg)
			}
		}
	}
	collect := func(reply *APIResult) raceOutcome {
		var o raceOutcome
		snap, _ := nd.inc.real.SimSnapshot()
		o.snap, o.detail = canonSnap(snap)
		switch {
		case reply == nil:
			o.reply = "none"
		case reply.Panic != "":
			o.reply = "panic"
		case reply.OK():
			o.reply = "ok"
		default:
			o.reply = "error"
		}
		var ap []string
		for _, m := range w.Board.Msgs[L0:] {
			ap = append(ap, fmt.Sprintf("%s>%s:%x", m.Event, m.RecipientAddr, sha256.Sum256([]byte(maskTimes(m.Data))))[:60])
		}
		sort.Strings(ap)
		o.appends = strings.Join(ap, "|")
		var ps []string
		for _, p := range nd.PendingOps() {
			ps = append(ps, string(p.Type))
		}
		o.pending = strings.Join(ps, ",")
		return o
	}
	tickOnce := func(limit int) {
		w.Advance(1e9)
		if p := nd.inc.Poller; p.Parked() != nil {
			nd.Handle.ReadLimit = limit
			w.RunPollTick(p)
			nd.Handle.ReadLimit = 0
		}
	}
	// ---- serial orders: the request before the tick, after it, or at any message boundary inside it
	serial := map[string]string{}
	var serialOut []raceOutcome
	for pos := 0; pos <= spec.msgs; pos++ {
		restore()
		if pos > 0 {
			tickOnce(pos)
		}
		reply := w.CallAPI(nd, "race", spec.method, spec.path, spec.body)
		if pos < spec.msgs {
			if strings.HasPrefix(spec.kind, "reset") {
				// after a reset the next tick starts from offset 0 of the new state
				tickOnce(0)
			} else {
				tickOnce(spec.msgs - pos)
			}
		}
		o := collect(reply)
		serial[o.key()] = fmt.Sprintf("request after %d of %d messages", pos, spec.msgs)
		serialOut = append(serialOut, o)
	}
	// ---- concurrent executions: gate-level interleavings with <= 3 pre-emptions
	runs := 6
	if tier == "thorough" {
		runs = 16
	}
	schedules := map[string]bool{}
	for r := 0; r < runs && !w.Failed(); r++ {
		restore()
		var reply *APIResult
		api := w.SpawnAPI(nd, "race", spec.method, spec.path, spec.body, &reply)
		w.Advance(1e9) // the tick becomes due: the poller parks at its first gate
		poll := nd.inc.Poller
		nd.Handle.ReadLimit = spec.msgs
		// PCT-style: an initial runner, up to three pre-emption points over the joint gate sequence
		cur := []*Task{api, poll}[w.Tape.Choose(2, "first")]
		np := w.Tape.Choose(4, "preemptions")
		pre := map[int]bool{}
		for i := 0; i < np; i++ {
			pre[1+w.Tape.Choose(60, "preemptAt")] = true
		}
		pollTicks := 0
		sched := ""
		var lockBlocked *Task // a task waiting for a product lock held by the other (parked) task
		for g := 1; g < 4000; g++ {
			other := api
			if cur == api {
				other = poll
			}
			runnable := func(tk *Task) bool {
				if tk == lockBlocked {
					return false
				}
				p := tk.Parked()
				if p == nil {
					return false
				}
				if tk == poll && p.Point == "st.loadOffset" && pollTicks >= 1 {
					return false // exactly one tick
				}
				return true
			}
			if lockBlocked != nil && (lockBlocked.Done() || lockBlocked.Parked() != nil) {
				lockBlocked = nil // the lock was released: the waiter went on to its next gate
				w.settle()
			}
			if pre[g] && runnable(other) {
				cur = other
				w.Stats.Fault("preempt")
			}
			if !runnable(cur) {
				o2 := api
				if cur == api {
					o2 = poll
				}
				if !runnable(o2) {
					if lockBlocked != nil {
						// give the waiter time to get the lock and reach its next gate
						free := false
						for k := 0; k < 200000; k++ {
							if lockBlocked.Done() || lockBlocked.Parked() != nil {
								free = true
								break
							}
							runtime.Gosched()
						}
						if free {
							lockBlocked = nil
							w.settle()
							continue
						}
						w.Fail("C14", "deadlock/"+spec.kind, "a task waits for a product lock that is never released and the other task cannot run")
					}
					break
				}
				cur = o2
			}
			if cur == poll {
				if p := poll.Parked(); p != nil && p.Point == "st.loadOffset" {
					pollTicks++
				}
				sched += "p"
			} else {
				sched += "a"
			}
			if !w.GrantNB(cur) {
				lockBlocked = cur
				sched += "!"
			} else if lockBlocked == nil {
				w.settle()
			}
		}
		nd.Handle.ReadLimit = 0
		schedules[sched] = true
		rep := w.finishAPI(nd, api, reply)
		if poll.Done() {
			w.collectPanics(nd)
			if len(nd.Panics) > 0 {
				w.Fail("C14", "poller-panic-during-race/"+spec.kind, strings.Join(nd.Panics, "; "))
				break
			}
		}
		if strings.HasPrefix(spec.kind, "reset") && nd.inc != nil && !nd.inc.Poller.Done() {
			// a tick interrupted by a reset is followed by the next tick, as in the serial orders
			tickOnce(0)
		}
		o := collect(rep)
		if _, ok := serial[o.key()]; !ok {
			// describe the difference against the closest serial outcome
			best, bestN := 0, 1<<30
			for i, so := range serialOut {
				d := 0
				for k, v := range o.detail {
					if so.detail[k] != v {
						d++
					}
				}
				if so.reply != o.reply {
					d++
				}
				if so.appends != o.appends {
					d++
				}
				if d < bestN {
					best, bestN = i, d
				}
			}
			so := serialOut[best]
			var diffs []string
			for k, v := range o.detail {
				if so.detail[k] != v {
					diffs = append(diffs, k)
				}
			}
			for k := range so.detail {
				if _, ok := o.detail[k]; !ok {
					diffs = append(diffs, "-"+k)
				}
			}
			if so.reply != o.reply {
				diffs = append(diffs, "api-reply:"+so.reply+"->"+o.reply)
			}
			if so.appends != o.appends {
				diffs = append(diffs, "board-appends")
			}
			sort.Strings(diffs)
			where := ""
			for _, k := range diffs {
				if a, ok := so.detail[k]; ok && where == "" {
					where = "; " + k + ": " + firstDiff(a, o.detail[k])
				}
			}
			w.Fail("C14", "not-serializable/"+kindName+"/"+strings.Join(diffs, ","),
				fmt.Sprintf("request %s concurrent with one tick over [%s] (schedule %s): the outcome equals none of the %d serial orders; closest (request after %d messages) differs in %v; pending ops now [%s] vs [%s]%s", kindName, strings.Join(msgKinds, ","), compress(sched), len(serialOut), best, diffs, o.pending, so.pending, where))
		}
	}
	w.Stats.ProbeN("interleavings-executed", len(schedules))
	w.Stats.Probe("race-" + strings.SplitN(spec.kind, ":", 2)[0])
	_ = os.RemoveAll(ckpt)
	return true, map[string]interface{}{"n": n, "t": t, "request": spec.kind, "tick_messages": msgKinds, "serial_orders": len(serialOut), "distinct_serial_outcomes": len(serial), "distinct_schedules": len(schedules)}
}

func compress(s string) string {
	if s == "" {
		return ""
	}
	var sb strings.Builder
	run, cnt := s[0], 0
	for i := 0; i <= len(s); i++ {
		if i < len(s) && s[i] == run {
			cnt++
			continue
		}
		fmt.Fprintf(&sb, "%c%d", run, cnt)
		if i < len(s) {
			run, cnt = s[i], 1
		}
	}
	return sb.String()
}

// offsetOfDir reads the offset stored in the (stopped) node's state directory copy.
func offsetOfDir(w *World, nd *HotNode) uint64 { return nd.DeadOffset }

func init() {
	Register(&Scenario{Prop: "C14", Name: "C14", Run: runC14})
}

var _ = spf.EventInitProposal
