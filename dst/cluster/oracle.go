package cluster

import (
	"bytes"
	"fmt"
	"sort"
	"sync"

	"github.com/herumi/bls-eth-go-binary/bls"

	"github.com/lidofinance/dc4bc/client/api/dto"
	sigrepo "github.com/lidofinance/dc4bc/client/repositories/signature"
	"github.com/lidofinance/dc4bc/dkg"
)

var blsOnce sync.Once

func initBLS() {
	blsOnce.Do(func() {
		if err := bls.Init(bls.BLS12_381); err != nil {
			panic(err)
		}
		if err := bls.SetETHmode(bls.EthModeDraft07); err != nil {
			panic(err)
		}
	})
}

// VerifyETH is the independent Ethereum BLS verifier (herumi; kyber sits on
// kilic/bls12-381, so this shares no code with the implementation under test).
func VerifyETH(pub48, msg, sig96 []byte) error {
	initBLS()
	if len(pub48) != 48 {
		return fmt.Errorf("group key has %d bytes, want 48", len(pub48))
	}
	if len(sig96) != 96 {
		return fmt.Errorf("signature has %d bytes, want 96", len(sig96))
	}
	var pk bls.PublicKey
	if err := pk.Deserialize(pub48); err != nil {
		return fmt.Errorf("group key does not deserialize: %v", err)
	}
	var sg bls.Sign
	if err := sg.Deserialize(sig96); err != nil {
		return fmt.Errorf("signature does not deserialize: %v", err)
	}
	if !sg.VerifyByte(&pk, msg) {
		return fmt.Errorf("signature does not verify")
	}
	return nil
}

// Keyring returns the airgapped machine's keyring for the round (nil if none).
func (a *AirNode) Keyring(round string) *dkg.BLSKeyring {
	if a.M == nil {
		return nil
	}
	ks, err := a.M.GetBLSKeyrings()
	if err != nil {
		return nil
	}
	return ks[round]
}

// GroupKey returns the 48-byte group key the airgapped machines hold for the
// round; all machines must agree (else C02 is violated, reported separately).
func (w *World) GroupKey(round string) ([]byte, error) {
	var key []byte
	for _, a := range w.Airs {
		k := a.Keyring(round)
		if k == nil {
			continue
		}
		b, err := k.PubPoly.Commit().MarshalBinary()
		if err != nil {
			return nil, err
		}
		if key == nil {
			key = b
		} else if !bytes.Equal(key, b) {
			return nil, fmt.Errorf("airgapped machines disagree on the group key")
		}
	}
	if key == nil {
		return nil, fmt.Errorf("no airgapped machine has a keyring for the round")
	}
	return key, nil
}

// Signatures returns the node's signature store for the round.
func (n *HotNode) Signatures(round string) sigrepo.SignaturesStorage {
	if n.inc == nil {
		return nil
	}
	s, err := n.inc.Sigs.GetSignatures(&dto.DkgIdDTO{DkgID: round})
	if err != nil {
		return nil
	}
	return s
}

func sortedKeys[V any](m map[string]V) []string {
	ks := make([]string, 0, len(m))
	for k := range m {
		ks = append(ks, k)
	}
	sort.Strings(ks)
	return ks
}
