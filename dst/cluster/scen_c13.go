package cluster

import (
	"encoding/json"
	"fmt"
	"regexp"
	"sort"
	"strconv"
	"strings"
	"testing"

	"github.com/lidofinance/dc4bc/client/types"
	"github.com/lidofinance/dc4bc/storage"

	"dst/sim"
)

var hexRun = regexp.MustCompile(`[0-9a-f]{16,}`)

func canonKey(k string) string { return hexRun.ReplaceAllString(k, "<round>") }

// crashSpec: which victim gates / scheduler steps end in a process death.
type crashSpec struct {
	victim int
	gates  []int // cumulative victim-gate counts at which the process dies
	stops  []int // scheduler step numbers before which the process is stopped cleanly (between ticks)
	torn   bool  // a crash landing on a state write tears that write instead of preceding it
}

func parseInts(s string) []int {
	var out []int
	for _, p := range strings.Split(s, ",") {
		if v, err := strconv.Atoi(strings.TrimSpace(p)); err == nil {
			out = append(out, v)
		}
	}
	sort.Ints(out)
	return out
}

// pendingRaw reads the durable pool of a dead incarnation (pool minus
// tombstones) directly from its LevelDB, without the repository.
func pendingRaw(inc *Incarnation) (pending map[string]string, deleted map[string]bool) {
	pending = map[string]string{}
	deleted = map[string]bool{}
	opsBz, _ := inc.real.Get(Topic + "_operations")
	delBz, _ := inc.real.Get(Topic + "_deleted_operations")
	var ops, del map[string]*types.Operation
	_ = json.Unmarshal(opsBz, &ops)
	_ = json.Unmarshal(delBz, &del)
	for id := range del {
		deleted[id] = true
	}
	for id, o := range ops {
		if !deleted[id] {
			pending[id] = string(o.Type)
		}
	}
	return
}

type c13Run struct {
	completed   bool
	groupKey    string
	victimGates []string // gate sequence of the victim's tasks (reference run)
	steps       int
	crashes     int
	windows     []string
}

// installCrashKeeper wires the crash plan of one victim node into the world:
// records the victim's gate sequence (reference runs), kills the process at the
// planned gates / stops it cleanly at the planned steps, restarts it on the same
// state directory after a tape-chosen number of steps and judges, right after
// the restart, that every operation that was pending is still offered and that
// no retired one is back. The returned function is to be called after every
// scheduler step.
func installCrashKeeper(w *World, victim int, spec *crashSpec, out *c13Run) func() {
	// observation of the victim: last durable write, what it is handling
	lastWrite := "none"
	var hookInc *Incarnation
	hook := func() {
		inc := w.Nodes[victim].inc
		if inc == nil || inc == hookInc {
			return
		}
		hookInc = inc
		inc.gs.OnWrite = func(op, key string, _ []byte) { lastWrite = "st." + op + ":" + canonKey(key) }
	}
	hook()
	w.Board.OnAppend = append(w.Board.OnAppend, func(m storage.Message, by int) {
		if by == victim {
			lastWrite = "board.send:" + m.Event
		}
	})
	handling := func() string {
		inc := w.Nodes[victim].inc
		if inc == nil {
			return "?"
		}
		inc.Logger.mu.Lock()
		defer inc.Logger.mu.Unlock()
		for i := len(inc.Logger.Lines) - 1; i >= 0; i-- {
			l := inc.Logger.Lines[i]
			if strings.HasPrefix(l, "Handling message with offset") {
				if j := strings.LastIndex(l, "type "); j >= 0 {
					return l[j+5:]
				}
			}
			if strings.HasPrefix(l, "Successfully processed") || strings.HasPrefix(l, "Failed to process") || strings.Contains(l, "is not intended for us") {
				return "between-messages"
			}
		}
		return "nothing-yet"
	}

	var pendBefore map[string]string
	var delBefore map[string]bool
	window := ""
	downFor := 0
	gi, si := 0, 0
	if spec != nil {
		w.CrashNodeIdx = victim
		if len(spec.gates) > 0 {
			w.CrashAtGate = spec.gates[0]
		}
		w.CrashTorn = spec.torn
	}
	w.GateHook = func(tk *Task, g GateInfo) {
		if tk.Node == victim && g.Point != "start" && out != nil && spec == nil {
			out.victimGates = append(out.victimGates, taskKind(tk)+":"+g.Point+":"+canonKey(g.Key))
		}
	}
	w.OnCrash = func(tk *Task, at GateInfo) {
		tname := taskKind(tk)
		window = fmt.Sprintf("task=%s/handling=%s/crash-at=%s:%s/after=%s", tname, handling(), at.Point, canonKey(at.Key), lastWrite)
	}
	// called by the loop after every step: crash bookkeeping and restart
	handledDeaths := 0
	afterStep := func() {
		nd := w.Nodes[victim]
		if spec == nil {
			return
		}
		if nd.inc == nil && nd.Deaths > handledDeaths {
			// the process just died: remember what was durable
			handledDeaths = nd.Deaths
			pendBefore, delBefore = nd.DeadPending, nd.DeadDeleted
			out.crashes++
			out.windows = append(out.windows, window)
			downFor = w.Tape.Choose(4, "downSteps")
			gi++
			if gi < len(spec.gates) {
				w.CrashAtGate = spec.gates[gi]
			} else {
				w.CrashAtGate = 0
			}
		}
		if nd.inc == nil && pendBefore != nil {
			if downFor > 0 {
				downFor--
				return
			}
			if err := w.RestartNode(nd); err != nil {
				w.Fail("C13", "restart-failed/"+window, err.Error())
				return
			}
			hook()
			lastWrite = "restart"
			// "resumes from its saved offset": the offset the new process starts from is
			// the one that was durable when the old one died
			if got := nd.Offset(); got != nd.DeadOffset {
				w.Fail("C13", "restart-does-not-resume-from-saved-offset", fmt.Sprintf("the state directory held offset %d when the process died; the restarted process starts reading the board at %d (%s)", nd.DeadOffset, got, window))
			}
			// (1) every operation that was pending is still offered; (4) no retired one is back
			now := map[string]bool{}
			for _, o := range nd.PendingOps() {
				now[o.ID] = true
				if delBefore[o.ID] {
					w.Fail("C13", "retired-operation-offered-again/"+window, fmt.Sprintf("operation %s (%s) had been retired before the crash and is pending again after the restart", o.ID, o.Type))
				}
			}
			var lost []string
			for id, ty := range pendBefore {
				if !now[id] {
					lost = append(lost, ty)
				}
			}
			if len(lost) > 0 {
				sort.Strings(lost)
				w.Fail("C13", "pending-operation-lost-on-restart", fmt.Sprintf("%d operation(s) pending before the process died are not offered after the restart on the same state directory: %v (%s)", len(lost), lost, window))
			}
			pendBefore, delBefore = nil, nil
		}
	}
	step := func() {
		if spec != nil && si < len(spec.stops) && w.Steps >= spec.stops[si] && w.Nodes[victim].inc != nil {
			// clean stop between messages: only when the poller is not inside a tick
			if p := w.Nodes[victim].inc.Poller; p.Parked() == nil {
				si++
				window = "clean-stop-between-ticks"
				w.Stats.Fault("clean-stop")
				w.CrashNode(w.Nodes[victim])
			}
		}
		afterStep()
	}
	return step
}

// runC13World drives one world: honest ceremony + one batch, with the crash
// spec applied to the victim.
func runC13World(w *World, tier string, spec *crashSpec, out *c13Run) (bool, interface{}) {
	n := 2 + w.Tape.Choose(2, "n") // 2..3 (crash positions grow with n)
	if tier == "thorough" && w.Tape.Bool(1, 4, "n4") {
		n = 4
	}
	t := 2 + w.Tape.Choose(n-1, "t")
	c := NewCluster(w, n)
	c.L.Faults.PermuteResults = true
	members := AllMembers(n)
	victim := w.Tape.Choose(n, "victim")
	so := &signOracle{c: c, prop: "C13"}
	so.install()

	step := installCrashKeeper(w, victim, spec, out)
	// proposals: a human whose command died with the process issues it again
	// after the restart (same bytes, hence the same round id)
	proposer := w.Tape.Choose(n, "proposer")
	payload := w.StartDKGPayload(t, members)
	round := RoundID(payload)
	var retry []func() bool // each returns true when done
	post := func() bool {
		if w.Nodes[proposer].inc == nil {
			return false
		}
		rep := w.CallAPI(w.Nodes[proposer], "startDKG", "POST", "/startDKG", payload)
		if rep.Crashed {
			return false
		}
		if !rep.OK() {
			w.Fail("C13", "startdkg-rejected", rep.ErrMsg)
		}
		return true
	}
	c.L.AfterStep = func() {
		step()
		for len(retry) > 0 && !w.Failed() {
			if !retry[0]() {
				break
			}
			retry = retry[1:]
		}
	}
	// sometimes the nodes already hold a finished round of an earlier key generation:
	// whatever happens to the victim during the judged ceremony, that round stays what it was
	round0, ready0 := "", false
	if w.Tape.Bool(1, 3, "earlierRound") {
		p0 := w.StartDKGPayload(2+w.Tape.Choose(n-1, "t0"), members)
		if rep := w.CallAPI(w.Nodes[proposer], "startDKG", "POST", "/startDKG", p0); rep.OK() {
			round0 = RoundID(p0)
			ready0 = c.RunDKG(round0, members, 500*n)
			w.Stats.Fault("multi-round")
			w.Advance(2e9)
			payload = w.StartDKGPayload(t, members)
			round = RoundID(payload)
			if round == round0 {
				round0, ready0 = "", false
			}
		}
	}
	if !post() {
		retry = append(retry, post)
		step()
	}
	ready := c.RunDKG(round, members, 500*n)
	if ready && !w.Failed() {
		before := len(c.Tr.Order)
		p2 := w.Tape.Choose(n, "proposer")
		propose := func() bool {
			if len(c.Tr.Order) > before {
				return true
			}
			if w.Nodes[p2].inc == nil {
				return false
			}
			rep := c.ProposeFiles(p2, round, map[string][]byte{"c13 msg": []byte("payload to sign after a crash")})
			return !rep.Crashed
		}
		if !propose() {
			retry = append(retry, propose)
			step()
		}
		c.L.RunUntil(func() bool {
			return len(c.Tr.Order) > before && c.Tr.AllHaveBatch(c.Tr.LastBatch(), members) && c.AllInState(round, StIdle, members)
		}, 400*n)
	}
	// let a node that is still down come back, then settle
	for i := 0; i < 8 && w.Nodes[victim].inc == nil && !w.Failed(); i++ {
		step()
	}
	if !w.Failed() {
		c.L.Quiesce(14)
	}
	done := false
	if !w.Failed() {
		done = c.AllInState(round, StIdle, members) && len(c.Tr.Order) > 0 && c.Tr.AllHaveBatch(c.Tr.LastBatch(), members)
		so.checkStores(round, members)
		checkNoDuplicateStoreEntries(w, "C13", round, members)
	}
	if !w.Failed() && ready0 {
		for _, i := range members {
			if st := w.Nodes[i].RoundState(round0); st != StIdle {
				if st == "" {
					st = "missing"
				}
				w.Fail("C13", "finished-earlier-round-changed-after-restart/"+st, fmt.Sprintf("node %d held the finished round %.8s of an earlier key generation before the judged ceremony; now that round is %s (victim=%d)", i, round0, st, victim))
				break
			}
		}
		w.Stats.Probe("earlier-round-still-ready")
	}
	if out != nil {
		out.completed = done
		out.steps = w.Steps
		if gk, err := w.GroupKey(round); err == nil {
			out.groupKey = fmt.Sprintf("%x", gk)
		}
	}
	if spec != nil && !w.Failed() && !done {
		ws := strings.Join(out.windows, " ; ")
		for _, wd := range out.windows {
			// the window "round state durable, operation not yet" explains a
			// stall on its own (recorded finding); name it alone
			if strings.Contains(wd, "/after=st.set:sim_fsm_state") && strings.Contains(wd, "_operations/") && strings.HasPrefix(wd, "task=poll/") {
				ws = wd
				break
			}
		}
		if ws == "" {
			ws = "no-crash-fired"
		}
		w.Fail("C13", "ceremony-stalled-after-crash/"+ws, fmt.Sprintf("with the crash(es) the ceremony does not reach the outcome of the crash-free run: states %v, pending ops %v, victim=%d, n=%d t=%d", states(c, round), pendingTypes(w), victim, n, t))
	}
	if !w.Failed() && done {
		// "the same outcome as without the crash": without a crash every node that collects the
		// batch publishes its reconstruction (a node is idle again only after its publication was
		// accepted by the board), and every store ends up with an entry by every participant
		var missing []string
		for _, i := range members {
			found := false
			for _, m := range w.Board.Msgs {
				if m.Event == string(types.SignatureReconstructed) && m.DkgRoundID == round && m.SenderAddr == w.Nodes[i].Name && w.Board.Injected[m.Offset] == nil {
					found = true
					break
				}
			}
			if !found {
				missing = append(missing, w.Nodes[i].Name)
			}
		}
		if len(missing) > 0 {
			ws := "no-crash-fired"
			if out != nil && len(out.windows) > 0 {
				ws = strings.Join(out.windows, " ; ")
			}
			w.Fail("C13", "reconstruction-never-published/"+ws, fmt.Sprintf("the round is idle and the batch stored everywhere, but the board holds no reconstruction published by %v (victim=%d): without the crash every node publishes its own", missing, victim))
		}
	}
	for _, nd := range w.Nodes {
		if len(nd.Panics) > 0 {
			w.Fail("C13", "panic-after-restart", strings.Join(nd.Panics, "; "))
		}
	}
	return done, map[string]interface{}{"n": n, "t": t, "victim": victim, "windows": out.windows, "steps": w.Steps}
}

// checkNoDuplicateStoreEntries: "every board message exactly once in effect" -
// a signature broadcast handled again after a restart (or posted again by a
// peer that died between posting and saving) must not leave a second entry of
// the same participant for the same message in the signature store.
func checkNoDuplicateStoreEntries(w *World, prop, round string, members []int) {
	for _, i := range members {
		n := w.Nodes[i]
		sigs := n.Signatures(round)
		for _, bid := range sortedKeys(sigs) {
			for _, mid := range sortedKeys(sigs[bid]) {
				seen := map[string]int{}
				for _, e := range sigs[bid][mid] {
					seen[e.Username]++
				}
				for u, k := range seen {
					if k > 1 {
						w.Fail(prop, "signature-broadcast-applied-twice", fmt.Sprintf("store of %s: message %q of batch %s has %d entries by participant %s", n.Name, mid, bid, k, u))
						return
					}
				}
			}
		}
	}
}

func pendingTypes(w *World) []string {
	var out []string
	for _, n := range w.Nodes {
		for _, o := range n.PendingOps() {
			out = append(out, fmt.Sprintf("%d:%s", n.Idx, o.Type))
		}
	}
	return out
}

// c13Driver is the fault-enumeration driver: for the schedule the tape
// describes it first records the crash-free reference run (gate sequence of
// the victim, outcome), then re-runs the same tape once per crash position
// (all of them in the thorough tier, a tape-chosen sample in the quick tier),
// plus clean stops and a multi-crash run.
type c13World func(w *World, tier string, spec *crashSpec, out *c13Run) (bool, interface{})

func c13Driver(t *testing.T, sc *Scenario, tier string, tape *sim.Tape, keepAll bool) sim.RunResult {
	return c13DriverWith(runC13World, t, sc, tier, tape, keepAll)
}

func c13DriverWith(world c13World, t *testing.T, sc *Scenario, tier string, tape *sim.Tape, keepAll bool) sim.RunResult {
	ref := &c13Run{}
	sub := func(params map[string]string, rec *c13Run) sim.RunResult {
		tp := tape.Fork()
		tp.Params = params
		return runBubble(t, tier, tp, keepAll, func(w *World) (bool, interface{}) {
			w.Prop = "C13"
			return world(w, tier, specFrom(params), rec)
		})
	}
	res := sub(map[string]string{"mode": "reference"}, ref)
	tape.Out = res.Tape
	if res.Inconclusive != "" {
		return res
	}
	if res.Violation != nil {
		res.Params = map[string]string{"mode": "reference"}
		return res
	}
	if !ref.completed {
		res.Inconclusive = "crash-free reference run did not complete"
		return res
	}
	total := len(ref.victimGates)
	agg := res
	agg.Stats = sim.NewStats()
	res.Stats.AddTo(agg.Stats)
	agg.Stats.ProbeN("crash-positions-total", total)
	var positions []int
	if tier == "thorough" {
		for k := 1; k <= total; k++ {
			positions = append(positions, k)
		}
	} else {
		r := tape.Sub(0xc13)
		seen := map[int]bool{}
		for len(positions) < 10 && len(positions) < total {
			k := 1 + int(r.Next()%uint64(total))
			if !seen[k] {
				seen[k] = true
				positions = append(positions, k)
			}
		}
		sort.Ints(positions)
	}
	tried := 0
	var firstKnown *sim.RunResult
	distinctWin := map[string]bool{}
	runSub := func(params map[string]string) *sim.RunResult {
		rec := &c13Run{}
		r := sub(params, rec)
		tried++
		if r.Stats != nil {
			r.Stats.AddTo(agg.Stats)
		}
		agg.Steps += r.Steps
		agg.Gates += r.Gates
		agg.FakeSeconds += r.FakeSeconds
		for _, wd := range rec.windows {
			distinctWin[wd] = true
		}
		if r.Violation != nil && sim.IsKnownFinding(r.Violation.Property, r.Violation.Signature) {
			// a recorded finding: remember one instance, keep enumerating
			agg.Stats.Probe("known-finding-hit")
			if firstKnown == nil {
				r.Params = params
				rr := r
				firstKnown = &rr
			}
			return nil
		}
		if r.Violation != nil || r.Inconclusive != "" {
			r.Params = params
			return &r
		}
		if rec.groupKey != ref.groupKey {
			r.Violation = &sim.Violation{Property: "C13", Signature: "outcome-differs-from-crash-free-run/group-key", Detail: fmt.Sprintf("crash spec %v: group key %s, crash-free run %s", params, rec.groupKey, ref.groupKey)}
			r.Params = params
			return &r
		}
		return nil
	}
	for _, k := range positions {
		if bad := runSub(map[string]string{"mode": "crash", "gates": strconv.Itoa(k)}); bad != nil {
			bad.Stats = agg.Stats
			return *bad
		}
	}
	agg.Stats.ProbeN("crash-positions-tried", len(positions))
	// torn writes: the process dies in the middle of a state write (the write's
	// journal record is cut short); all write gates in the thorough tier, four
	// tape-chosen ones in the quick tier
	var writes []int
	for i, g := range ref.victimGates {
		if p := strings.SplitN(g, ":", 3); len(p) > 1 && isWriteGate(p[1]) {
			writes = append(writes, i+1)
		}
	}
	if tier != "thorough" && len(writes) > 4 {
		r := tape.Sub(0xc15)
		pick := map[int]bool{}
		for len(pick) < 4 {
			pick[writes[int(r.Next()%uint64(len(writes)))]] = true
		}
		writes = writes[:0]
		for k := range pick {
			writes = append(writes, k)
		}
		sort.Ints(writes)
	}
	for _, k := range writes {
		if bad := runSub(map[string]string{"mode": "crash", "gates": strconv.Itoa(k), "torn": "1"}); bad != nil {
			bad.Stats = agg.Stats
			return *bad
		}
	}
	agg.Stats.ProbeN("torn-write-positions-tried", len(writes))
	// clean stop/start at message boundaries
	r := tape.Sub(0xc14)
	for i := 0; i < 2; i++ {
		s1 := 1 + int(r.Next()%uint64(max(1, ref.steps)))
		if bad := runSub(map[string]string{"mode": "stop", "stops": strconv.Itoa(s1)}); bad != nil {
			bad.Stats = agg.Stats
			return *bad
		}
	}
	// several crashes in one run
	if total > 3 {
		k1 := 1 + int(r.Next()%uint64(total))
		k2 := k1 + 1 + int(r.Next()%uint64(total))
		k3 := k2 + 1 + int(r.Next()%uint64(total))
		if bad := runSub(map[string]string{"mode": "crash", "gates": fmt.Sprintf("%d,%d,%d", k1, k2, k3)}); bad != nil {
			bad.Stats = agg.Stats
			return *bad
		}
	}
	if firstKnown != nil {
		agg.Violation = firstKnown.Violation
		agg.Params = firstKnown.Params
		agg.Tape = firstKnown.Tape
	}
	agg.NonTrivial = tried > 0
	agg.Sample = map[string]interface{}{"reference": res.Sample, "victim_gates": total, "sub_runs": tried, "first_gates": head(ref.victimGates, 12)}
	agg.Abstract = nil
	for wd := range distinctWin {
		agg.Abstract = append(agg.Abstract, "window:"+wd)
	}
	return agg
}

func taskKind(tk *Task) string {
	if strings.HasPrefix(tk.Name, "api") {
		if i := strings.Index(tk.Name, "."); i >= 0 {
			return "api." + tk.Name[i+1:]
		}
	}
	return "poll"
}

func head(s []string, n int) []string {
	if len(s) > n {
		return s[:n]
	}
	return s
}

func specFrom(p map[string]string) *crashSpec {
	switch p["mode"] {
	case "crash":
		return &crashSpec{gates: parseInts(p["gates"]), torn: p["torn"] != ""}
	case "stop":
		return &crashSpec{stops: parseInts(p["stops"])}
	}
	return nil
}

func init() {
	Register(&Scenario{Prop: "C13", Name: "C13", Driver: c13Driver,
		Run: func(w *World, tier string) (bool, interface{}) {
			rec := &c13Run{}
			return runC13World(w, tier, specFrom(w.Tape.Params), rec)
		}})
}
