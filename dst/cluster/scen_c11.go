package cluster

import (
	"encoding/json"
	"fmt"
	"strings"

	"github.com/corestario/kyber"
	"github.com/corestario/kyber/encrypt/ecies"
	"github.com/corestario/kyber/pairing/bls12381"
	dkgPedersen "github.com/corestario/kyber/share/dkg/pedersen"

	"github.com/lidofinance/dc4bc/client/types"
	dpf "github.com/lidofinance/dc4bc/fsm/state_machines/dkg_proposal_fsm"
	"github.com/lidofinance/dc4bc/fsm/types/requests"
)

var c11Kinds = []string{"deal-with-unknown-dealer-index", "deal-from-second-polynomial", "deal-encrypted-to-wrong-key", "ciphertext-truncated", "ciphertext-garbled",
	"commitments-one-coefficient-altered", "commitments-too-short", "commitments-too-long", "response-with-complaint", "deal-not-a-deal", "deal-with-another-participants-dealer-index",
	"commitments-of-another-polynomial-that-agrees-at-every-honest-index"}

type rngReader struct{ r interface{ Next() uint64 } }

func (r rngReader) Read(p []byte) (int, error) {
	for i := range p {
		p[i] = byte(r.r.Next())
	}
	return len(p), nil
}

func runC11(w *World, tier string) (bool, interface{}) {
	n, t := pickNT(w, tier)
	if n < 3 {
		n = 3
		if t > n {
			t = n
		}
	}
	if n > 4 && tier != "thorough" {
		n = 4
		if t > n {
			t = n
		}
	}
	c := NewCluster(w, n)
	// the board is unreachable for single submissions now and then (also for the
	// one that carries the victim's refusal); operators submit again
	c.L.Faults.BoardDownAtSubmit = w.Tape.Bool(1, 2, "boardOutages")
	// ... or goes away in the middle of one (part of a participant's deals posted)
	c.L.Faults.PartialPost = w.Tape.Bool(1, 3, "partialPosts")
	if w.Tape.Bool(1, 2, "operatorsRetryRefusals") {
		for _, op := range c.Ops {
			op.RetryRefused = true
		}
	}
	c.L.Faults.PermuteResults = true
	members := AllMembers(n)
	D := w.Tape.Choose(n, "dealer")
	V := (D + 1 + w.Tape.Choose(n-1, "victim")) % n
	kind := c11Kinds[w.Tape.Choose(len(c11Kinds), "kind")]
	w.Stats.Fault("byz-dealer-" + kind)
	fired := false
	suite := bls12381.NewBLS12381Suite(nil)

	suppressed := map[string]bool{}
	c.Ops[D].Filter = func(o *types.Operation) bool { return !suppressed[o.ID] }
	c.Ops[D].Tamper = func(op *types.Operation, result []byte) []byte {
		var ro types.Operation
		if json.Unmarshal(result, &ro) != nil {
			return result
		}
		changed := false
		if strings.HasSuffix(string(ro.Event), "canceled_by_error") {
			// the deviating dealer's own machine (honest software here, fed by a deviating
			// carrier) noticed the inconsistency first; a dealer who deviates on purpose does
			// not report itself, so this report never leaves: the others have to notice
			w.Stats.Probe("dealers-own-failure-report-suppressed")
			suppressed[op.ID] = true
			return nil
		}
		switch string(op.Type) {
		case string(dpf.StateDkgCommitsAwaitConfirmations):
			if !strings.HasPrefix(kind, "commitments-") || len(ro.ResultMsgs) != 1 {
				return result
			}
			var req requests.DKGProposalCommitConfirmationRequest
			var commits [][]byte
			if json.Unmarshal(ro.ResultMsgs[0].Data, &req) != nil || json.Unmarshal(req.Commit, &commits) != nil || len(commits) < 2 {
				return result
			}
			switch kind {
			case "commitments-one-coefficient-altered":
				k := w.Tape.Choose(len(commits), "coeff")
				if w.Tape.Bool(1, 2, "lastCoeff") {
					k = len(commits) - 1
				}
				other := (k + 1) % len(commits)
				commits[k] = commits[other]
			case "commitments-of-another-polynomial-that-agrees-at-every-honest-index":
				// the dealer deals from P and publishes the commitments of Q = P + c*Z, where Z
				// vanishes at the index of every other participant: each share it hands out lies
				// on the published polynomial, yet every coefficient (the secret included)
				// differs from what the deals carry. Z has degree n-1, so this needs t = n;
				// otherwise one published coefficient is altered as in the plain kind
				if len(commits) != n {
					commits[len(commits)-1] = commits[0]
					break
				}
				z := []kyber.Scalar{suite.Scalar().One()}
				for p := 0; p < n; p++ {
					if p == D {
						continue
					}
					root := suite.Scalar().SetInt64(int64(p + 1))
					nz := make([]kyber.Scalar, len(z)+1)
					for k := range nz {
						nz[k] = suite.Scalar().Zero()
					}
					for k, zk := range z {
						nz[k+1] = suite.Scalar().Add(nz[k+1], zk)
						nz[k] = suite.Scalar().Sub(nz[k], suite.Scalar().Mul(zk, root))
					}
					z = nz
				}
				cc := suite.Scalar().SetInt64(int64(2 + w.Tape.Choose(1000, "shiftFactor")))
				ok := len(z) == len(commits)
				for k := 0; ok && k < len(commits); k++ {
					pt := suite.Point()
					if pt.UnmarshalBinary(commits[k]) != nil {
						ok = false
						break
					}
					pt = suite.Point().Add(pt, suite.Point().Mul(suite.Scalar().Mul(cc, z[k]), nil))
					commits[k], _ = pt.MarshalBinary()
				}
				if !ok {
					return result
				}
				w.Stats.Fault("byz-dealer-published-polynomial-agrees-at-honest-indices")
			case "commitments-too-short":
				commits = commits[:len(commits)-1]
			case "commitments-too-long":
				commits = append(commits, commits[0])
			}
			req.Commit, _ = json.Marshal(commits)
			ro.ResultMsgs[0].Data, _ = json.Marshal(req)
			changed = true
		case string(dpf.StateDkgDealsAwaitConfirmations):
			if !(strings.HasPrefix(kind, "deal-") || strings.HasPrefix(kind, "ciphertext-")) {
				return result
			}
			for i := range ro.ResultMsgs {
				m := &ro.ResultMsgs[i]
				if m.RecipientAddr != w.Nodes[V].Name {
					continue
				}
				var req requests.DKGProposalDealConfirmationRequest
				if json.Unmarshal(m.Data, &req) != nil {
					continue
				}
				switch kind {
				case "ciphertext-truncated":
					// boundary lengths around the encoded point sizes as often as arbitrary ones
					if w.Tape.Bool(1, 2, "boundaryLen") {
						ls := []int{1, 2, 15, 16, 31, 32, 33, 40, 46, 47, 48, 49, 63, 64, 65, 95, 96, 97}
						l := ls[w.Tape.Choose(len(ls), "truncLen")]
						if l < len(req.Deal) {
							req.Deal = req.Deal[:l]
							break
						}
					}
					req.Deal = req.Deal[:1+w.Tape.Choose(len(req.Deal)-1, "truncAt")]
				case "ciphertext-garbled":
					k := w.Tape.Choose(len(req.Deal), "garbleAt")
					req.Deal[k] ^= 0x5a
				case "deal-with-another-participants-dealer-index":
					// the genuine sealed deal with its dealer index replaced by the addressee's
					// own or a third participant's, sealed again for the addressee
					pt, err := w.Airs[V].M.SimDecrypt(req.Deal)
					if err != nil {
						return result
					}
					var dm map[string]interface{}
					if json.Unmarshal(pt, &dm) != nil {
						return result
					}
					idx := V
					if n > 2 && w.Tape.Bool(1, 3, "thirdPartyIndex") {
						for z := 0; z < n; z++ {
							if z != V && z != D {
								idx = z
							}
						}
					}
					dm["Index"] = idx
					bz, _ := json.Marshal(dm)
					enc, err := ecies.Encrypt(suite, w.Airs[V].M.GetPubKey(), bz, suite.Hash)
					if err != nil {
						return result
					}
					req.Deal = enc
				case "deal-with-unknown-dealer-index":
					// the genuine sealed deal, opened with the addressee's key (hook H2), its dealer index
					// replaced by one that is no participant, sealed again for the addressee
					pt, err := w.Airs[V].M.SimDecrypt(req.Deal)
					if err != nil {
						return result
					}
					var dm map[string]interface{}
					if json.Unmarshal(pt, &dm) != nil {
						return result
					}
					dm["Index"] = []int{n, n + 5, 99, 65535, 1 << 30}[w.Tape.Choose(5, "badIndex")]
					bz, _ := json.Marshal(dm)
					enc, err := ecies.Encrypt(suite, w.Airs[V].M.GetPubKey(), bz, suite.Hash)
					if err != nil {
						return result
					}
					req.Deal = enc
				case "deal-not-a-deal":
					enc, err := ecies.Encrypt(suite, w.Airs[V].M.GetPubKey(), []byte(`{"Index":0,"Deal":null}`), suite.Hash)
					if err != nil {
						return result
					}
					req.Deal = enc
				case "deal-encrypted-to-wrong-key", "deal-from-second-polynomial":
					// a self-consistent deal from another polynomial of the same dealer
					sec := w.Airs[D].M.SimSecrets().SecKey
					var pubs []kyber.Point
					for _, a := range w.Airs {
						pubs = append(pubs, a.M.GetPubKey())
					}
					gen, err := dkgPedersen.NewDistKeyGenerator(bls12381.NewBLS12381Suite([]byte("second-polynomial-seed-012345678")), sec, pubs, t, rngReader{w.Tape.Sub(0xbad)})
					if err != nil {
						return result
					}
					deals, err := gen.Deals()
					if err != nil || deals[V] == nil {
						return result
					}
					bz, _ := json.Marshal(deals[V])
					target := w.Airs[V].M.GetPubKey()
					if kind == "deal-encrypted-to-wrong-key" {
						// the genuine deal content, but sealed for somebody else
						other := (V + 1) % n
						if other == D {
							other = (other + 1) % n
						}
						if other == V {
							return result
						}
						target = w.Airs[other].M.GetPubKey()
						// keep the genuine plaintext unknown: re-encrypting a deal of the second generator is equally undecryptable for V
					}
					enc, err := ecies.Encrypt(suite, target, bz, suite.Hash)
					if err != nil {
						return result
					}
					req.Deal = enc
				}
				m.Data, _ = json.Marshal(req)
				changed = true
			}
		case string(dpf.StateDkgResponsesAwaitConfirmations):
			if kind != "response-with-complaint" || len(ro.ResultMsgs) != 1 {
				return result
			}
			var req requests.DKGProposalResponseConfirmationRequest
			var resps []*dkgPedersen.Response
			if json.Unmarshal(ro.ResultMsgs[0].Data, &req) != nil || json.Unmarshal(req.Response, &resps) != nil || len(resps) == 0 {
				return result
			}
			k := w.Tape.Choose(len(resps), "whichResponse")
			if resps[k] == nil || resps[k].Response == nil {
				return result
			}
			resps[k].Response.Status = false // complaint
			req.Response, _ = json.Marshal(resps)
			ro.ResultMsgs[0].Data, _ = json.Marshal(req)
			changed = true
		}
		if !changed {
			return result
		}
		fired = true
		w.Stats.Probe("deviation-sent-" + kind)
		out, _ := json.Marshal(ro)
		return out
	}
	// observe the victim's airgapped answers
	victimErrors := map[string]bool{}
	for i := range c.Ops {
		i := i
		c.Ops[i].OnResult = func(op *types.Operation, result []byte, rep *APIResult) {
			if result == nil || i == D {
				return
			}
			var ro types.Operation
			if json.Unmarshal(result, &ro) == nil && strings.HasSuffix(string(ro.Event), "canceled_by_error") {
				victimErrors[fmt.Sprintf("%d:%s", i, ro.Event)] = true
			}
		}
	}
	round, rep := c.StartDKG(w.Tape.Choose(n, "proposer"), t, members)
	if !rep.OK() {
		w.Fail("C11", "startdkg-rejected", rep.ErrMsg)
		return false, nil
	}
	// process death of an honest bystander while it handles the victim's refusal: the
	// node is killed at a tape-chosen store call / board call of the tick that consumes the
	// refusal and restarted on the same state directory; it must still end cancelled
	crashNode := -1
	if n >= 3 && w.Tape.Bool(1, 3, "bystanderDies") {
		for _, i := range permOf(w, n) {
			if i != D && i != V {
				crashNode = i
				break
			}
		}
	}
	armed, died := false, false
	victimRestart := w.Tape.Bool(1, 3, "victimNodeRestarts")
	victimRestarted := false
	c.L.AfterStep = func() {
		if victimRestart && !victimRestarted {
			// the victim's hot node is stopped and started again (cleanly, between two
			// ticks) while the operation that carries the bad deal waits in its pool
			nd := w.Nodes[V]
			if nd.inc != nil && nd.inc.Poller.Parked() == nil {
				for _, o := range nd.PendingOps() {
					if string(o.Type) == string(dpf.StateDkgResponsesAwaitConfirmations) {
						victimRestarted = true
						w.stopNode(nd, true)
						if err := w.RestartNode(nd); err != nil {
							w.Fail("C11", "restart-failed", err.Error())
						}
						w.Stats.Fault("clean-restart")
						break
					}
				}
			}
		}
		if crashNode < 0 {
			return
		}
		nd := w.Nodes[crashNode]
		if nd.inc == nil {
			if !died {
				died = true
				w.Stats.Fault("crash-hot")
			}
			if err := w.RestartNode(nd); err != nil {
				w.Fail("C11", "restart-failed", err.Error())
			}
			w.CrashAtGate = 0
			return
		}
		if armed || died {
			return
		}
		for _, m := range w.Board.Msgs {
			if m.DkgRoundID == round && strings.HasSuffix(m.Event, "canceled_by_error") && nd.Offset() <= m.Offset && nd.Offset()+1 >= m.Offset {
				// the refusal is (about) the next message this node reads
				w.ArmCrash(crashNode, 1+w.Tape.Choose(8, "dieAtGate"))
				armed = true
				break
			}
		}
	}
	c.L.RunUntil(func() bool {
		return c.AllInState(round, StIdle, members) || c.AnyCancelled(round, members)
	}, 500*n)
	w.CrashAtGate = 0
	c.L.Quiesce(10)
	if !fired {
		return false, fmt.Sprintf("deviation %s did not apply (n=%d t=%d)", kind, n, t)
	}
	sts := states(c, round)
	sig := kind
	for i, a := range w.Airs {
		if len(a.Panics) > 0 {
			w.Fail("C11", "addressee-machine-crashes/"+kind, fmt.Sprintf("machine %d terminated with a fault instead of refusing the deviating contribution (%s): %s", i, kind, a.Panics[0]))
			return true, nil
		}
	}
	if kind == "response-with-complaint" {
		// premise: the deviating message is one the others could act on. With the board
		// going away in the middle of the dealer's own deals submission, its response can
		// reach the board before some of its deals: nodes that still collect deals refuse a
		// response as out of step, and for them the dealer has simply not answered - a
		// silent participant stalls a round, which no property forbids (see DESIGN 11)
		firstResp, lastDeal := -1, -1
		for _, m := range w.Board.Msgs {
			if m.DkgRoundID != round || m.SenderAddr != w.Nodes[D].Name || w.Board.Injected[m.Offset] != nil {
				continue
			}
			if m.Event == string(dpf.EventDKGResponseConfirmationReceived) && firstResp < 0 {
				firstResp = int(m.Offset)
			}
			if m.Event == string(dpf.EventDKGDealConfirmationReceived) {
				lastDeal = int(m.Offset)
			}
		}
		if firstResp >= 0 && firstResp < lastDeal {
			w.Stats.Probe("deviating-response-posted-before-the-dealers-own-deals")
			return false, "the deviating response reached the board before the dealer's deals were all there: nodes still collecting deals cannot act on it"
		}
	}
	{
		// same premise for every participant (DESIGN 11, "a node that is behind by a step"): with
		// the board going away in the middle of an *honest* submission of deals and the file
		// submitted again, that participant's ordinary response can stand on the board in front of
		// a deal some node still waits for; that node refuses the response as out of step and
		// waits for it for good - the round stalls in the responses step whatever the dealer did.
		// Such a run says nothing about the deviation, unless a node got as far as signing-ready.
		firstResp, lastDeal, anyReady := -1, -1, false
		for _, m := range w.Board.Msgs {
			if m.DkgRoundID != round || w.Board.Injected[m.Offset] != nil {
				continue
			}
			if m.Event == string(dpf.EventDKGResponseConfirmationReceived) && firstResp < 0 {
				firstResp = int(m.Offset)
			}
			if m.Event == string(dpf.EventDKGDealConfirmationReceived) {
				lastDeal = int(m.Offset)
			}
		}
		stalledInResponses := false
		for _, i := range members {
			st := w.Nodes[i].RoundState(round)
			if st == StIdle {
				anyReady = true
			}
			if st == string(dpf.StateDkgResponsesAwaitConfirmations) || st == string(dpf.StateDkgDealsAwaitConfirmations) {
				stalledInResponses = true
			}
		}
		if firstResp >= 0 && firstResp < lastDeal && stalledInResponses && !anyReady && !c.AnyCancelled(round, members) {
			w.Stats.Probe("ordinary-response-posted-before-a-deal-some-node-still-waited-for")
			return false, "a response reached the board before the last deal (submission of deals cut by a board outage): nodes still collecting deals refused it; the stall is not the deviation's"
		}
	}
	for _, i := range members {
		if !IsCancelled(w.Nodes[i].RoundState(round)) {
			w.Fail("C11", "round-not-cancelled/"+sig, fmt.Sprintf("dealer %d deviated (%s, victim %d) but node %d is in %s (all: %v); victim error results: %v", D, kind, V, i, w.Nodes[i].RoundState(round), sts, sortedKeys(victimErrors)))
			break
		}
	}
	if !w.Failed() {
		for _, i := range members {
			if i != D && w.Airs[i].Keyring(round) != nil {
				w.Fail("C11", "honest-machine-stored-share/"+sig, fmt.Sprintf("machine %d holds a key share for a round in which dealer %d deviated (%s)", i, D, kind))
				break
			}
		}
	}
	if !w.Failed() && len(victimErrors) == 0 {
		w.Fail("C11", "no-error-reported/"+sig, fmt.Sprintf("round cancelled (%v) but no honest machine produced an error result", sts))
	}
	w.Abstract[kind] = true
	return true, map[string]interface{}{"n": n, "t": t, "dealer": D, "victim": V, "deviation": kind, "states": sts, "error_results": sortedKeys(victimErrors)}
}

func init() {
	Register(&Scenario{Prop: "C11", Name: "C11", Run: runC11})
}
