package cluster

import (
	"encoding/json"
	"fmt"
	"os"
	"path/filepath"
	"sort"
	"sync/atomic"

	"github.com/tyler-smith/go-bip39"

	"github.com/lidofinance/dc4bc/airgapped"
	"github.com/lidofinance/dc4bc/client/services/node"
	"github.com/lidofinance/dc4bc/client/types"
	"github.com/lidofinance/dc4bc/storage"
)

func init() {
	airgapped.N = 2 // scrypt cost knob (exported by the product)
	// in-function yield points of ProcessOperation (hook H2) become gates
	airgapped.SimYield = func(am *airgapped.Machine, point string) {
		if w := yieldWorld.Load(); w != nil {
			w.Gate(point, "")
		}
	}
}

var yieldWorld atomic.Pointer[World]

func init() {
	// statement-level yield points of the node's message handler (hook H6) become
	// gates where a scenario asks for them (World.NodeYields)
	node.SimYield = func(point string) {
		if w := yieldWorld.Load(); w != nil && w.NodeYields {
			w.Gate("node."+point, "")
		}
	}
}

// AirNode is one participant's airgapped machine (real airgapped.Machine on a
// real LevelDB directory, real result files).
type AirNode struct {
	w         *World
	Idx       int
	Dir       string
	ResultDir string
	Mnemonic  string
	Password  []byte
	M         *airgapped.Machine
	Restarts  int
	Dead      bool // the machine process was killed and has not been restarted yet
	Panics    []string
	// every result operation JSON that ever left the machine (C04 taint scan)
	Outputs [][]byte
}

func (w *World) AddAir(name string) *AirNode {
	idx := len(w.Airs)
	r := w.Tape.Sub(0x2000 + uint64(idx))
	ent := make([]byte, 32)
	for i := range ent {
		ent[i] = byte(r.Next())
	}
	mn, err := bip39.NewMnemonic(ent)
	if err != nil {
		panic(err)
	}
	a := &AirNode{
		w: w, Idx: idx,
		Dir:       w.Path(fmt.Sprintf("air%d_db", idx)),
		ResultDir: w.Path(fmt.Sprintf("air%d_results", idx)),
		Mnemonic:  mn,
		Password:  []byte(fmt.Sprintf("pw-%d-%x", idx, r.Next())),
	}
	if w.LongPasswords {
		// a passphrase well beyond any key size
		a.Password = []byte(fmt.Sprintf("correct horse battery staple %d / %x / %x / %x", idx, r.Next(), r.Next(), r.Next()))
	}
	_ = os.MkdirAll(a.ResultDir, 0o755)
	w.Airs = append(w.Airs, a)
	return a
}

// Open follows cmd/airgapped: NewMachine, result folder, password, keys. On
// the very first start the base seed is set from the mnemonic before the keys
// are generated.
func (a *AirNode) Open(first bool) error {
	m, err := airgapped.NewMachine(a.Dir)
	if err != nil {
		return err
	}
	m.SetResultFolder(a.ResultDir)
	m.SetEncryptionKey(a.Password)
	if first {
		if err := m.SetBaseSeed(a.Mnemonic); err != nil {
			m.SimClose()
			return err
		}
	}
	if err := m.InitKeys(); err != nil {
		m.SimClose()
		return err
	}
	a.M = m
	return nil
}

func (a *AirNode) close() {
	if a.M != nil {
		_ = a.M.SimClose()
		a.M = nil
	}
}

// Reopen only reopens the machine from its database (no replay): the state an
// operator meets who forgot the replay step.
func (a *AirNode) Reopen() error {
	a.close()
	a.Dead = false
	a.Restarts++
	return a.Open(false)
}

// ReplayLogs replays the operation log of the given rounds on the open machine.
func (a *AirNode) ReplayLogs(rounds []string) error {
	for _, r := range rounds {
		if err := a.M.ReplayOperationsLog(r); err != nil {
			return fmt.Errorf("replay %s: %w", r, err)
		}
	}
	return nil
}

// Restart reopens the machine from its database and replays the operation log
// of the given rounds exactly once each, as HowTo.md prescribes.
func (a *AirNode) Restart(rounds []string) error {
	a.close()
	a.Dead = false
	a.Restarts++
	if err := a.Open(false); err != nil {
		return err
	}
	for _, r := range rounds {
		if err := a.M.ReplayOperationsLog(r); err != nil {
			return fmt.Errorf("replay %s: %w", r, err)
		}
	}
	return nil
}

func (a *AirNode) PubKeyBytes() []byte {
	b, err := a.M.GetPubKey().MarshalBinary()
	if err != nil {
		panic(err)
	}
	return b
}

// CanonicalResultMsgs sorts result messages canonically (the deals handler
// ranges over a Go map, so their order is random in the product); the carrier
// then applies a tape-chosen permutation, turning hidden nondeterminism into a
// recorded choice.
func CanonicalResultMsgs(msgs []storage.Message) {
	sort.SliceStable(msgs, func(i, j int) bool {
		if msgs[i].Event != msgs[j].Event {
			return msgs[i].Event < msgs[j].Event
		}
		if msgs[i].RecipientAddr != msgs[j].RecipientAddr {
			return msgs[i].RecipientAddr < msgs[j].RecipientAddr
		}
		return string(msgs[i].Data) < string(msgs[j].Data)
	})
}

// ProcessFile is the operator's visit to the airgapped machine: the operation
// JSON is read from a "file" (bytes), unmarshalled and processed exactly as
// cmd/airgapped's read_operation does; the result file is read back.
func (a *AirNode) ProcessFile(opJSON []byte) (resultJSON []byte, path string, err error) {
	var op types.Operation
	if err := json.Unmarshal(opJSON, &op); err != nil {
		return nil, "", fmt.Errorf("failed to unmarshal Operation: %w", err)
	}
	path, err = a.M.ProcessOperation(op, true)
	if err != nil {
		return nil, "", err
	}
	res, err := os.ReadFile(path)
	if err != nil {
		return nil, path, err
	}
	a.Outputs = append(a.Outputs, res)
	return res, path, nil
}

func (a *AirNode) ResultFiles() []string {
	fs, _ := filepath.Glob(filepath.Join(a.ResultDir, "*"))
	sort.Strings(fs)
	return fs
}
