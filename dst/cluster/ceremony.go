package cluster

import (
	"crypto/ed25519"
	"encoding/hex"
	"encoding/json"
	"fmt"
	"strings"
	"time"

	"github.com/google/uuid"

	"github.com/lidofinance/dc4bc/client/types"
	sif "github.com/lidofinance/dc4bc/fsm/state_machines/signing_proposal_fsm"
	fsmtypes "github.com/lidofinance/dc4bc/fsm/types"
	"github.com/lidofinance/dc4bc/fsm/types/requests"
	"github.com/lidofinance/dc4bc/fsm/types/responses"
	"github.com/lidofinance/dc4bc/pkg/wc_rotation"
	"github.com/lidofinance/dc4bc/storage"

	"dst/oracle"
)

const (
	StIdle = "stage_signing_idle"
)

// Cer bundles a cluster with its loop and operators.
type Cer struct {
	W   *World
	L   *Loop
	N   int
	Ops []*Operator
	Tr  *Tracker
}

// NewCluster creates n participants (hot node + airgapped machine + operator),
// opens the machines and starts the nodes.
func NewCluster(w *World, n int) *Cer {
	c := &Cer{W: w, L: NewLoop(w), N: n}
	for i := 0; i < n; i++ {
		name := fmt.Sprintf("node_%d", i)
		if w.NameOf != nil {
			name = w.NameOf(i)
		}
		w.AddNode(name)
		a := w.AddAir(name)
		if err := a.Open(true); err != nil {
			panic(fmt.Sprintf("open airgapped %d: %v", i, err))
		}
	}
	for _, nd := range w.Nodes {
		if err := w.StartNode(nd); err != nil {
			panic(fmt.Sprintf("start node: %v", err))
		}
	}
	for i := 0; i < n; i++ {
		op := &Operator{L: c.L, Idx: i}
		c.Ops = append(c.Ops, op)
		c.L.Actors = append(c.L.Actors, op)
	}
	c.Tr = NewTracker(w)
	return c
}

// StartDKG posts the opening proposal through the proposer's local API.
func (c *Cer) StartDKG(proposer, threshold int, members []int) (string, *APIResult) {
	payload := c.W.StartDKGPayload(threshold, members)
	rep := c.W.CallAPI(c.W.Nodes[proposer], "startDKG", "POST", "/startDKG", payload)
	return RoundID(payload), rep
}

// StartDKGUnder puts the opening proposal on the board under a round id of the
// proposer's choosing (the node's own /startDKG derives the id from the payload;
// nothing makes anybody else do so: the opening proposal is the one message nobody
// authenticates).
func (c *Cer) StartDKGUnder(proposer, threshold int, members []int, id string) string {
	w := c.W
	n := w.Nodes[proposer]
	m := storage.Message{DkgRoundID: id, Event: "event_sig_proposal_init", Data: w.StartDKGPayload(threshold, members), SenderAddr: n.Name}
	m.Signature = ed25519.Sign(n.Priv, m.Bytes())
	w.Board.Append(proposer, m)
	return id
}

func (c *Cer) AllInState(round, st string, members []int) bool {
	for _, i := range members {
		if c.W.Nodes[i].RoundState(round) != st {
			return false
		}
	}
	return true
}

func IsCancelled(st string) bool {
	return strings.Contains(st, "cancel") || strings.Contains(st, "canceled")
}

func (c *Cer) AnyCancelled(round string, members []int) bool {
	for _, i := range members {
		if IsCancelled(c.W.Nodes[i].RoundState(round)) {
			return true
		}
	}
	return false
}

func AllMembers(n int) []int {
	m := make([]int, n)
	for i := range m {
		m[i] = i
	}
	return m
}

// RunDKG schedules until every member node is signing-ready (true) or some
// node cancelled / the cap was hit (false).
func (c *Cer) RunDKG(round string, members []int, maxSteps int) bool {
	return c.L.RunUntil(func() bool {
		return c.AllInState(round, StIdle, members) || c.AnyCancelled(round, members)
	}, maxSteps) && c.AllInState(round, StIdle, members)
}

// ---- proposals ----------------------------------------------------------------

// TaskSpec is what the harness asks to be signed.
type TaskSpec struct {
	File    string
	Payload []byte
	Baked   bool
	Start   int
	End     int
}

// ProposeFiles uses POST /proposeSignBatchMessages.
func (c *Cer) ProposeFiles(node int, round string, files map[string][]byte) *APIResult {
	id, _ := hex.DecodeString(round)
	body, _ := json.Marshal(map[string]interface{}{"dkgID": id, "data": files})
	for f, p := range files {
		c.Tr.ExpectFile(f, p)
	}
	return c.W.CallAPI(c.W.Nodes[node], "proposeBatch", "POST", "/proposeSignBatchMessages", body)
}

// ProposeOne uses POST /proposeSignMessage (file name is a uuid chosen by the node).
func (c *Cer) ProposeOne(node int, round string, payload []byte) *APIResult {
	id, _ := hex.DecodeString(round)
	body, _ := json.Marshal(map[string]interface{}{"dkgID": id, "data": payload})
	c.Tr.ExpectAnon(payload)
	return c.W.CallAPI(c.W.Nodes[node], "proposeOne", "POST", "/proposeSignMessage", body)
}

// ProposeBaked uses POST /proposeSignBakedMessages.
func (c *Cer) ProposeBaked(node int, round string, start, end int) *APIResult {
	id, _ := hex.DecodeString(round)
	body, _ := json.Marshal(map[string]interface{}{"dkgID": id, "range_start": start, "range_end": end})
	return c.W.CallAPI(c.W.Nodes[node], "proposeBaked", "POST", "/proposeSignBakedMessages", body)
}

// ProposeRaw posts a proposal crafted by the participant itself (mixed explicit
// and baked tasks cannot be produced through the convenience endpoints): signed
// with the participant's key and appended to the board.
func (c *Cer) ProposeRaw(node int, round string, tasks []TaskSpec) string {
	w := c.W
	n := w.Nodes[node]
	var sts []requests.SigningTask
	for _, t := range tasks {
		if t.Baked {
			sts = append(sts, requests.SigningTask{MessageID: uuid.New().String(), RangeStart: t.Start, RangeEnd: t.End})
		} else {
			c.Tr.ExpectFile(t.File, t.Payload)
			sts = append(sts, requests.SigningTask{MessageID: strings.ReplaceAll(t.File, " ", "-") + "_" + uuid.New().String()[:5], File: t.File, Payload: t.Payload, RangeStart: t.Start, RangeEnd: t.End})
		}
	}
	pid := -1
	if d := n.Dump(round); d != nil {
		if id, ok := d.Payload.IDs[n.Name]; ok {
			pid = id
		}
	}
	req := requests.SigningBatchProposalStartRequest{
		BatchID: uuid.New().String(), ParticipantId: pid, CreatedAt: time.Now(), SigningTasks: sts,
	}
	data, _ := json.Marshal(req)
	m := storage.Message{DkgRoundID: round, Event: string(sif.EventSigningStart), Data: data, SenderAddr: n.Name}
	m.Signature = ed25519.Sign(n.Priv, m.Bytes())
	w.Board.Append(node, m)
	return req.BatchID
}

// ReproposeChanged posts a proposal that re-uses the batch identifier and the
// message identifiers of the batch at board offset off, with every explicit
// payload replaced by a fresh one (a corrected file proposed again).
func (c *Cer) ReproposeChanged(node int, off uint64, newBatchID ...bool) bool {
	w := c.W
	n := w.Nodes[node]
	var old requests.SigningBatchProposalStartRequest
	if json.Unmarshal(w.Board.Msgs[off].Data, &old) != nil {
		return false
	}
	round := w.Board.Msgs[off].DkgRoundID
	changed := false
	sts := append([]requests.SigningTask(nil), old.SigningTasks...)
	for i := range sts {
		if sts[i].Payload != nil {
			sts[i].Payload = append(genPayload(w, "repropose"), byte(i), 0x5a)
			c.Tr.ExpectFile(sts[i].File, sts[i].Payload)
			changed = true
		}
	}
	if !changed {
		return false
	}
	pid := -1
	if d := n.Dump(round); d != nil {
		if id, ok := d.Payload.IDs[n.Name]; ok {
			pid = id
		}
	}
	bid := old.BatchID
	if len(newBatchID) > 0 && newBatchID[0] {
		// a new batch that re-uses the message identifiers (and file names) of a finished one
		bid = uuid.New().String()
	}
	req := requests.SigningBatchProposalStartRequest{BatchID: bid, ParticipantId: pid, CreatedAt: time.Now(), SigningTasks: sts}
	data, _ := json.Marshal(req)
	m := storage.Message{DkgRoundID: round, Event: string(sif.EventSigningStart), Data: data, SenderAddr: n.Name}
	m.Signature = ed25519.Sign(n.Priv, m.Bytes())
	w.Board.Append(node, m)
	return true
}

// ---- tracker: the harness's own view of what was proposed and signed -------

type BatchInfo struct {
	Round   string
	BatchID string
	Offset  uint64
	Sender  string
	// expansion computed by the harness (not by TasksToMessages)
	Msgs []ExpMsg
	// which participants answered (by message on the board)
	Answered map[int]bool
	// expansions of earlier proposals that used the same batch identifier
	Earlier [][]ExpMsg
}

type ExpMsg struct {
	MessageID string
	File      string
	Payload   []byte // expected payload per the proposal (nil: unknown to the harness)
	Baked     bool
	Pos       int
}

// Tracker watches the board and keeps the reference bookkeeping for the
// signature oracles.
type Tracker struct {
	w       *World
	files   map[string][]byte // file name -> payload the harness proposed
	anon    [][]byte          // payloads proposed through /proposeSignMessage
	Batches map[string]*BatchInfo
	Order   []string // batch ids in board order
	// every reconstructed signature seen on the board: round|payloadhex -> sig
	SigByPayload map[string][]byte
	Recon        int
	Reproposed   int
}

func NewTracker(w *World) *Tracker {
	t := &Tracker{w: w, files: map[string][]byte{}, Batches: map[string]*BatchInfo{}, SigByPayload: map[string][]byte{}}
	w.Board.OnAppend = append(w.Board.OnAppend, t.onAppend)
	return t
}

func (t *Tracker) ExpectFile(f string, p []byte) { t.files[f] = append([]byte(nil), p...) }
func (t *Tracker) ExpectAnon(p []byte)           { t.anon = append(t.anon, append([]byte(nil), p...)) }

// Expand is the harness's own expansion of a proposal into (id, file, payload).
func (t *Tracker) Expand(tasks []requests.SigningTask) []ExpMsg {
	var out []ExpMsg
	for _, st := range tasks {
		if st.Payload != nil {
			out = append(out, ExpMsg{MessageID: st.MessageID, File: st.File, Payload: st.Payload})
			continue
		}
		for pos := st.RangeStart; pos < st.RangeEnd; pos++ {
			idx, ok := oracle.BakedIndex(wc_rotation.ValidatorsIndexes, pos)
			if !ok {
				out = append(out, ExpMsg{File: fmt.Sprintf("bakedrange%d", pos), Baked: true, Pos: pos})
				continue
			}
			out = append(out, ExpMsg{
				MessageID: fmt.Sprintf("%d", idx), File: fmt.Sprintf("bakedrange%d", pos),
				Payload: oracle.SigningRoot(idx), Baked: true, Pos: pos,
			})
		}
	}
	return out
}

func (t *Tracker) onAppend(m storage.Message, by int) {
	if by < 0 {
		return // adversarial entries are not part of the reference bookkeeping
	}
	switch m.Event {
	case string(sif.EventSigningStart):
		var req requests.SigningBatchProposalStartRequest
		if json.Unmarshal(m.Data, &req) != nil || req.BatchID == "" {
			return
		}
		if old, dup := t.Batches[req.BatchID]; dup {
			// the same batch identifier proposed again (the state machine does not
			// ask for fresh identifiers): from now on this proposal is the one the
			// batch's signatures, stored payloads and exports have to match
			if old.Round == m.DkgRoundID {
				old.Earlier = append(old.Earlier, old.Msgs)
				old.Offset, old.Sender, old.Msgs, old.Answered = m.Offset, m.SenderAddr, t.Expand(req.SigningTasks), map[int]bool{}
				t.Reproposed++
			}
			return
		}
		t.Batches[req.BatchID] = &BatchInfo{Round: m.DkgRoundID, BatchID: req.BatchID, Offset: m.Offset,
			Sender: m.SenderAddr, Msgs: t.Expand(req.SigningTasks), Answered: map[int]bool{}}
		t.Order = append(t.Order, req.BatchID)
	case string(sif.EventSigningPartialSignReceived):
		var req requests.SigningProposalBatchPartialSignRequests
		if json.Unmarshal(m.Data, &req) != nil {
			return
		}
		if b := t.Batches[req.BatchID]; b != nil {
			b.Answered[req.ParticipantId] = true
		}
	case string(types.SignatureReconstructed):
		t.Recon++
	}
}

// BatchOfOp returns the batch id a signing operation belongs to ("" otherwise).
func BatchOfOp(op *types.Operation) string {
	if !op.IsSigningState() {
		return ""
	}
	var p responses.SigningPartialSignsParticipantInvitationsResponse
	if json.Unmarshal(op.Payload, &p) != nil {
		return ""
	}
	return p.BatchID
}

// NodeHasBatch tells whether the node stores a non-empty signature for every
// message of the batch.
func (t *Tracker) NodeHasBatch(n *HotNode, b *BatchInfo) bool {
	sigs := n.Signatures(b.Round)
	if sigs == nil {
		return false
	}
	bs := sigs[b.BatchID]
	for _, em := range b.Msgs {
		ok := false
		for _, e := range bs[em.MessageID] {
			if len(e.Signature) > 0 {
				ok = true
			}
		}
		if !ok {
			return false
		}
	}
	return true
}

func (t *Tracker) AllHaveBatch(b *BatchInfo, members []int) bool {
	for _, i := range members {
		if !t.NodeHasBatch(t.w.Nodes[i], b) {
			return false
		}
	}
	return true
}

// LastBatch returns the most recently proposed batch seen on the board.
func (t *Tracker) LastBatch() *BatchInfo {
	if len(t.Order) == 0 {
		return nil
	}
	return t.Batches[t.Order[len(t.Order)-1]]
}

// ParseReconstructed decodes a signature_reconstructed message.
func ParseReconstructed(m storage.Message) []fsmtypes.ReconstructedSignature {
	var s []fsmtypes.ReconstructedSignature
	if json.Unmarshal(m.Data, &s) != nil {
		return nil
	}
	return s
}
