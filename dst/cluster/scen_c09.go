package cluster

import (
	"bytes"
	"crypto/ed25519"
	"encoding/json"
	"fmt"
	"sort"
	"strings"
	"time"

	"github.com/lidofinance/dc4bc/client/types"
	spf "github.com/lidofinance/dc4bc/fsm/state_machines/signature_proposal_fsm"
	"github.com/lidofinance/dc4bc/storage"
)

const offsetKey = Topic + "_offset"

// snapDiff lists the keys whose bytes differ (the read offset is excluded).
func snapDiff(a, b map[string][]byte) []string {
	var d []string
	for k, v := range a {
		if k == offsetKey {
			continue
		}
		if w, ok := b[k]; !ok || !bytes.Equal(v, w) {
			d = append(d, canonKey(k))
		}
	}
	for k := range b {
		if k == offsetKey {
			continue
		}
		if _, ok := a[k]; !ok {
			d = append(d, "+"+canonKey(k))
		}
	}
	sort.Strings(d)
	return d
}

func freshKey(w *World, salt uint64) ed25519.PrivateKey {
	r := w.Tape.Sub(0x9000 + salt)
	seed := make([]byte, ed25519.SeedSize)
	for i := range seed {
		seed[i] = byte(r.Next())
	}
	return ed25519.NewKeyFromSeed(seed)
}

var c09Kinds = []string{"payload-byte-flipped", "payload-truncated", "signature-bit-flipped", "signature-truncated", "signature-empty",
	"sender-renamed-to-other-participant", "sender-renamed-to-stranger", "resigned-with-other-participants-key", "resigned-with-fresh-key",
	"altered-payload-under-an-earlier-signature-of-the-sender",
	"forged-in-the-name-and-id-of-another-participant"}

// mutateAuth produces an unauthenticated variant of a genuine message.
func mutateAuth(w *World, m storage.Message, by int, kind string) storage.Message {
	x := m
	x.Data = append([]byte(nil), m.Data...)
	x.Signature = append([]byte(nil), m.Signature...)
	n := len(w.Nodes)
	other := (by + 1 + w.Tape.Choose(max(1, n-1), "otherNode")) % n
	switch kind {
	case "payload-byte-flipped":
		if len(x.Data) > 0 {
			// byte classes: first quarter (ids), middle (blob), tail (timestamp)
			cls := w.Tape.Choose(3, "byteClass")
			lo, hi := 0, len(x.Data)
			switch cls {
			case 0:
				hi = max(1, len(x.Data)/4)
			case 1:
				lo, hi = len(x.Data)/4, max(len(x.Data)/4+1, 3*len(x.Data)/4)
			default:
				lo = 3 * len(x.Data) / 4
			}
			i := lo + w.Tape.Choose(max(1, hi-lo), "bytePos")
			if i >= len(x.Data) {
				i = len(x.Data) - 1
			}
			// keep it parseable JSON where possible: change a digit to another digit, a letter to another letter
			c := x.Data[i]
			switch {
			case c >= '0' && c <= '8':
				x.Data[i] = c + 1
			case c == '9':
				x.Data[i] = '0'
			case c >= 'a' && c <= 'y', c >= 'A' && c <= 'Y':
				x.Data[i] = c + 1
			default:
				x.Data[i] = c ^ 0x01
			}
		}
	case "payload-truncated":
		if len(x.Data) > 2 {
			x.Data = x.Data[:len(x.Data)-1-w.Tape.Choose(len(x.Data)/2, "trunc")]
		}
	case "signature-bit-flipped":
		if len(x.Signature) > 0 {
			i := w.Tape.Choose(len(x.Signature), "sigByte")
			x.Signature[i] ^= 1 << uint(w.Tape.Choose(8, "sigBit"))
		}
	case "signature-truncated":
		if len(x.Signature) > 1 {
			x.Signature = x.Signature[:1+w.Tape.Choose(len(x.Signature)-1, "sigLen")]
		}
	case "signature-empty":
		x.Signature = nil
	case "sender-renamed-to-other-participant":
		x.SenderAddr = w.Nodes[other].Name
	case "sender-renamed-to-stranger":
		x.SenderAddr = "mallory"
	case "resigned-with-other-participants-key":
		// altered payload, signed by another registered participant, still claiming the original sender
		if len(x.Data) > 0 {
			x.Data[len(x.Data)/2] ^= 0x01
		}
		x.Signature = ed25519.Sign(w.Nodes[other].Priv, x.Bytes())
	case "forged-in-the-name-and-id-of-another-participant":
		// sender AND claimed participant id are those of participant P; signed by
		// somebody else (the original sender or a fresh key): only P's key may speak for P
		if d := w.Nodes[other].Inc(); d != nil {
			for _, r := range []string{m.DkgRoundID} {
				if dump := w.Nodes[other].Dump(r); dump != nil {
					if id, ok := dump.Payload.IDs[w.Nodes[other].Name]; ok {
						x.Data = pidRe.ReplaceAll(x.Data, []byte(fmt.Sprintf(`"ParticipantId":%d`, id)))
					}
				}
			}
		}
		x.SenderAddr = w.Nodes[other].Name
		if w.Tape.Bool(1, 2, "freshOrOriginal") {
			x.Signature = ed25519.Sign(freshKey(w, uint64(len(w.Board.Msgs))+7), x.Bytes())
		} else {
			x.Signature = ed25519.Sign(w.Nodes[by].Priv, x.Bytes())
		}
	case "altered-payload-under-an-earlier-signature-of-the-sender":
		// a signature the sender really made (and every node has already verified) -
		// but for another message; the payload underneath it is altered
		var earlier []storage.Message
		for _, e := range w.Board.Msgs {
			if e.SenderAddr == m.SenderAddr && e.DkgRoundID == m.DkgRoundID && w.Board.Injected[e.Offset] == nil && len(e.Signature) > 0 {
				earlier = append(earlier, e)
			}
		}
		if len(earlier) == 0 {
			return m
		}
		x.Signature = append([]byte(nil), earlier[w.Tape.Choose(len(earlier), "earlierSig")].Signature...)
		if len(x.Data) > 0 && w.Tape.Bool(1, 2, "alsoAlter") {
			x.Data[len(x.Data)/2] ^= 0x01
		}
	case "resigned-with-fresh-key":
		if len(x.Data) > 0 {
			x.Data[len(x.Data)/2] ^= 0x01
		}
		x.Signature = ed25519.Sign(freshKey(w, uint64(len(w.Board.Msgs))), x.Bytes())
	}
	return x
}

func runC09(w *World, tier string) (bool, interface{}) {
	n, t := pickNT(w, tier)
	if n > 4 && tier != "thorough" {
		n = 4
		if t > n {
			t = n
		}
	}
	c := NewCluster(w, n)
	c.L.Faults.PermuteResults = true
	c.L.Faults.BoardDownAtSubmit = w.Tape.Bool(1, 2, "boardOutages") // single submissions refused by the board; operators submit again
	members := AllMembers(n)
	budget := 3 + w.Tape.Choose(4, "mutants")
	injected := 0
	judged := 0
	var kinds []string
	outsider, roundB := -1, ""         // a second round that leaves one participant of the first out
	forceNext := false                 // the next genuine message gets a forged companion for sure
	wrappedRounds := map[string]bool{} // round ids only reinit envelopes of the adversary name
	w.Board.PreAppend = append(w.Board.PreAppend, func(m storage.Message, by int) {
		if by < 0 || injected >= budget {
			return
		}
		// the opening proposal and reinit messages are exempt (confirmed out of band)
		if m.Event == string(spf.EventInitProposal) && w.Tape.Bool(1, 2, "frontRun") {
			// ... but messages that name the round BEFORE its proposal is on the
			// board are not: no key is registered for anybody yet, so nothing can
			// verify, and nothing may be stored for the round
			other := w.Nodes[(by+1)%len(w.Nodes)].Name
			entry := []map[string]interface{}{{"File": "x", "BatchID": "front-run-batch", "MessageID": "front-run-msg", "SrcPayload": []byte("p"), "Signature": bytes.Repeat([]byte{7}, 96), "Username": other, "DKGRoundID": m.DkgRoundID}}
			x := storage.Message{DkgRoundID: m.DkgRoundID, Event: string(types.SignatureReconstructed), SenderAddr: other}
			x.Data, _ = json.Marshal(entry)
			x.Signature = ed25519.Sign(freshKey(w, 77), x.Bytes())
			w.Board.InjectMsg(x, &Inject{Kind: "front-running-the-proposal", Expect: "reject"})
			y := storage.Message{DkgRoundID: m.DkgRoundID, Event: string(spf.EventConfirmSignatureProposal), SenderAddr: other}
			y.Data, _ = json.Marshal(map[string]interface{}{"ParticipantId": 0, "CreatedAt": time.Now()})
			y.Signature = ed25519.Sign(freshKey(w, 78), y.Bytes())
			w.Board.InjectMsg(y, &Inject{Kind: "front-running-the-proposal", Expect: "reject"})
			kinds = append(kinds, "front-running-the-proposal@"+x.Event, "front-running-the-proposal@"+y.Event)
			w.Stats.Fault("mutate-front-running-the-proposal")
			return
		}
		if m.Event == string(spf.EventInitProposal) || m.Event == string(types.ReinitDKG) {
			return
		}
		if !forceNext && !w.Tape.Bool(1, 4, "inject?") {
			return
		}
		kind := c09Kinds[w.Tape.Choose(len(c09Kinds), "kind")]
		x := mutateAuth(w, m, by, kind)
		if outsider >= 0 && m.DkgRoundID == roundB && w.Tape.Bool(1, 2, "fromTheOutsider") {
			// a participant of the FIRST round only (every node has verified plenty of its
			// messages there) posts into the second round, where no key is registered for
			// it: its own name, its own genuine signature
			kind = "sent-by-a-participant-of-another-round-only"
			x = m
			x.SenderAddr = w.Nodes[outsider].Name
			if w.Tape.Bool(1, 2, "asReconstructedSignature") {
				entry := []map[string]interface{}{{"File": "x", "BatchID": "outsider-batch", "MessageID": "outsider-msg", "SrcPayload": []byte("p"), "Signature": bytes.Repeat([]byte{9}, 96), "Username": x.SenderAddr, "DKGRoundID": roundB}}
				x.Event = string(types.SignatureReconstructed)
				x.RecipientAddr = ""
				x.Data, _ = json.Marshal(entry)
			}
			x.Signature = ed25519.Sign(w.Nodes[outsider].Priv, x.Bytes())
		}
		if bytes.Equal(x.Data, m.Data) && bytes.Equal(x.Signature, m.Signature) && x.SenderAddr == m.SenderAddr {
			return // mutation was a no-op
		}
		forceNext = false
		if w.Tape.Bool(1, 5, "wrapInReinit") {
			// the forgery travels inside a reinitialisation envelope for a
			// brand-new round id: the envelope itself is exempt, but what it
			// carries is aimed at the existing round and bears no valid signature
			id := freshRoundID(w, uint64(len(w.Board.Msgs)))
			parts, thr := reinitParticipants(w, m.DkgRoundID)
			env := reinitEnvelope(w, by, id, thr, parts, []storage.Message{x})
			switch w.Tape.Choose(5, "envelopeShape") {
			case 4:
				// the id being "reinitialised" is the live round's id with white space around it -
				// another id, as far as "this round does not exist yet" is concerned - and the
				// forgery inside carries that same id
				id = []string{m.DkgRoundID + " ", " " + m.DkgRoundID, m.DkgRoundID + "\r\n", "\t" + m.DkgRoundID}[w.Tape.Choose(4, "paddedId")]
				kind = "inside-an-envelope-for-the-live-rounds-id-padded-with-white-space/" + kind
				xp := x
				xp.DkgRoundID = id
				env = reinitEnvelope(w, by, id, thr, parts, []storage.Message{xp})
				w.Stats.Fault("reinit-envelope-for-a-look-alike-id")
			case 3:
				// the envelope names the live round; the file inside reinitialises an unused
				// id and carries a complete, replayable log for it (the live round's own
				// genuine messages under the new id): the reinitialisation itself succeeds,
				// and it may create the new round only
				kind = "complete-log-for-an-unused-id-under-the-live-rounds-envelope"
				env = reinitEnvelope(w, by, id, thr, parts, relabelledLog(w, m.DkgRoundID, id))
				env.DkgRoundID = m.DkgRoundID
				env.Signature = ed25519.Sign(w.Nodes[by].Priv, env.Bytes())
				w.Stats.Fault("reinit-envelope-names-live-round")
			case 1:
				// the file inside names the live round itself, only the envelope
				// carries the unused id
				env = reinitEnvelope(w, by, m.DkgRoundID, thr, parts, []storage.Message{x})
				env.DkgRoundID = id
				env.Signature = ed25519.Sign(w.Nodes[by].Priv, env.Bytes())
			case 2:
				// the other way round: the envelope names the live round, the file
				// inside reinitialises the unused id
				env.DkgRoundID = m.DkgRoundID
				env.Signature = ed25519.Sign(w.Nodes[by].Priv, env.Bytes())
				w.Stats.Fault("reinit-envelope-names-live-round")
			}
			injected++
			kinds = append(kinds, "reinit-wrapped/"+kind+"@"+m.Event)
			w.Stats.Fault("mutate-reinit-wrapped")
			wrappedRounds[id] = true
			w.Board.InjectMsg(env, &Inject{Kind: "reinit-wrapped/" + kind, Expect: "existing-rounds-unchanged", Detail: id + "|" + m.Event})
			return
		}
		injected++
		kinds = append(kinds, kind+"@"+m.Event)
		w.Stats.Fault("mutate-" + kind)
		w.Board.InjectMsg(x, &Inject{Kind: kind, Expect: "reject"})
	})
	for _, op := range c.Ops {
		// the operators do not carry the adversary's reinitialisation operations to their machines
		op.Filter = func(o *types.Operation) bool { return !wrappedRounds[o.DKGIdentifier] }
	}
	c.L.OnInjectedConsumed = func(nd *HotNode, off uint64, inj *Inject, before, after map[string][]byte, failed bool, pan string) {
		if inj.Expect == "existing-rounds-unchanged" {
			judged++
			w.Abstract[inj.Kind] = true
			id, ev := inj.Detail, ""
			if i := strings.IndexByte(id, '|'); i >= 0 {
				id, ev = id[:i], id[i+1:]
			}
			if pan != "" {
				w.Fail("C09", "panic-on-unauthenticated-message/"+inj.Kind+"/"+ev, pan)
				return
			}
			if d := existingRoundsDiff(before, after, id); len(d) > 0 {
				w.Fail("C09", "existing-round-changed-by-message-inside-reinit-envelope/"+strings.TrimPrefix(inj.Kind, "reinit-wrapped/")+"/"+ev,
					fmt.Sprintf("%s consumed a reinitialisation envelope for the unused round id %.8s (offset %d) that carries a %s variant of a genuine %s message of an existing round; that round / the signature store changed: %v", nd.Name, id, off, inj.Kind, ev, d))
			}
			return
		}
		if inj.Expect != "reject" {
			return
		}
		if m := w.Board.Msgs[off]; m.RecipientAddr != "" && m.RecipientAddr != nd.Name {
			return // not addressed to this node: skipped, nothing to judge
		}
		judged++
		w.Abstract[inj.Event+"/"+inj.Kind] = true
		if pan != "" {
			w.Fail("C09", "panic-on-unauthenticated-message/"+inj.Kind+"/"+inj.Event, pan)
			return
		}
		if d := snapDiff(before, after); len(d) > 0 {
			w.Fail("C09", "state-changed-by-unauthenticated-message/"+inj.Kind+"/"+inj.Event,
				fmt.Sprintf("%s consumed the %s variant of a genuine %s message (offset %d) and its durable state changed in keys %v", nd.Name, inj.Kind, inj.Event, off, d))
			return
		}
		if !failed {
			w.Fail("C09", "unauthenticated-message-not-rejected/"+inj.Kind+"/"+inj.Event,
				fmt.Sprintf("%s processed the %s variant of a genuine %s message (offset %d) without an error", nd.Name, inj.Kind, inj.Event, off))
		}
	}
	round, rep := c.StartDKG(w.Tape.Choose(n, "proposer"), t, members)
	if !rep.OK() {
		w.Fail("C09", "startdkg-rejected", rep.ErrMsg)
		return false, nil
	}
	ready := c.RunDKG(round, members, 500*n)
	if ready && !w.Failed() {
		before := len(c.Tr.Order)
		c.ProposeFiles(w.Tape.Choose(n, "proposer"), round, map[string][]byte{"c09": []byte("sign me")})
		c.L.RunUntil(func() bool {
			return len(c.Tr.Order) > before && c.Tr.AllHaveBatch(c.Tr.LastBatch(), members) && c.AllInState(round, StIdle, members)
		}, 400*n)
	}
	// a batch cancelled by failure reports, then a new proposal: forged messages
	// now meet a round that waits in a cancelled-batch state
	cancelPhase := false
	if ready && !w.Failed() && c.AllInState(round, StIdle, members) && w.Tape.Bool(1, 2, "cancelledBatch") {
		cancelPhase = true
		w.Stats.Fault("batch-cancelled-by-error-reports")
		failing := map[int]bool{}
		for _, i := range permOf(w, n)[:n-t+1] {
			failing[i] = true
		}
		for i, op := range c.Ops {
			i, op := i, op
			op.Tamper = func(o *types.Operation, result []byte) []byte {
				if !o.IsSigningState() || !failing[i] {
					return result
				}
				pid := -1
				if d := w.Nodes[i].Dump(round); d != nil {
					if id, ok := d.Payload.IDs[w.Nodes[i].Name]; ok {
						pid = id
					}
				}
				if pid < 0 {
					return result
				}
				return SignerErrorResult(o, pid, "event_signing_partial_sign_error_received", "machine could not sign")
			}
		}
		before := len(c.Tr.Order)
		c.ProposeFiles(w.Tape.Choose(n, "proposer"), round, map[string][]byte{"c09-cancelled": []byte("nobody signs this")})
		c.L.RunUntil(func() bool {
			if len(c.Tr.Order) <= before {
				return false
			}
			for _, i := range members {
				if !strings.Contains(w.Nodes[i].RoundState(round), "cancelled") {
					return false
				}
			}
			return true
		}, 300*n)
		for _, op := range c.Ops {
			op.Tamper = nil
		}
		stuck := true
		for _, i := range members {
			if !strings.Contains(w.Nodes[i].RoundState(round), "cancelled") {
				stuck = false
			}
		}
		if stuck && !w.Failed() {
			w.Stats.Probe("round-in-cancelled-batch-state")
			injected, forceNext = 0, true
			before = len(c.Tr.Order)
			c.ProposeFiles(w.Tape.Choose(n, "proposer"), round, map[string][]byte{"c09-after-cancel": []byte("sign me now")})
			c.L.RunUntil(func() bool {
				return len(c.Tr.Order) > before && c.Tr.AllHaveBatch(c.Tr.LastBatch(), members) && c.AllInState(round, StIdle, members)
			}, 400*n)
		}
	}
	// a second key generation on the same nodes among all participants but one; the one
	// left out still has its key, and its name is known to everybody from the first round
	if !w.Failed() && n >= 3 && c.AllInState(round, StIdle, members) && w.Tape.Bool(1, 3, "secondRoundWithoutOne") {
		outsider = w.Tape.Choose(n, "outsider")
		var members2 []int
		for _, i := range members {
			if i != outsider {
				members2 = append(members2, i)
			}
		}
		w.Advance(2 * time.Second)
		t2 := 2 + w.Tape.Choose(len(members2)-1, "t2")
		injected = 0
		payload2 := w.StartDKGPayload(t2, members2)
		roundB = RoundID(payload2)
		if rp := w.CallAPI(w.Nodes[members2[0]], "startDKG", "POST", "/startDKG", payload2); rp.OK() {
			w.Stats.Fault("multi-round")
			c.RunDKG(roundB, members2, 500*n)
		}
	}
	if !w.Failed() {
		c.L.Quiesce(10)
	}
	if !w.Failed() && !cancelPhase {
		done := c.AllInState(round, StIdle, members) && len(c.Tr.Order) > 0 && c.Tr.AllHaveBatch(c.Tr.LastBatch(), members)
		if !done {
			sort.Strings(kinds)
			w.Fail("C09", "ceremony-disturbed-by-unauthenticated-messages", fmt.Sprintf("the honest ceremony did not complete although every injected message is unauthenticated: states %v, injected %v", states(c, round), kinds))
		}
	}
	return judged > 0, map[string]interface{}{"n": n, "t": t, "injected": kinds, "judged_consumptions": judged, "board_len": w.Board.Len()}
}

func init() {
	Register(&Scenario{Prop: "C09", Name: "C09", Run: runC09})
}

var _ = strings.Contains
