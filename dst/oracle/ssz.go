// Package oracle holds reference implementations written from specifications,
// independent of the code under test.
package oracle

import (
	"crypto/sha256"
	"encoding/binary"
	"encoding/hex"
	"strconv"
	"strings"
)

// Constants from the Ethereum consensus specification / mainnet and from
// Lido's public withdrawal-key documentation (not read from pkg/wc_rotation).
var (
	domainBLSToExecutionChange = [4]byte{0x0A, 0, 0, 0}
	genesisForkVersion         = [4]byte{0, 0, 0, 0}
	genesisValidatorsRoot      = mustHex("4b363db94e286120d76eb905340fdd4e54bfe9f06bf33ff6cf5ad27f511bfe95")
	lidoBLSPubkey              = mustHex("b67aca71f04b673037b54009b760f1961f3836e5714141c892afdb75ec0834dce6784d9c72ed8ad7db328cff8fe9f13e")
	lidoExecutionAddress       = mustHex("b9d7934878b5fb9610b3fe8a5e441e8fad7e293f")
)

func mustHex(s string) []byte {
	b, err := hex.DecodeString(s)
	if err != nil {
		panic(err)
	}
	return b
}

func h2(a, b []byte) []byte {
	h := sha256.New()
	h.Write(a)
	h.Write(b)
	return h.Sum(nil)
}

func pad32(b []byte) []byte {
	out := make([]byte, 32)
	copy(out, b)
	return out
}

// SigningRoot is compute_signing_root(BLSToExecutionChange(index, Lido key,
// Lido address), compute_domain(DOMAIN_BLS_TO_EXECUTION_CHANGE,
// GENESIS_FORK_VERSION, mainnet genesis_validators_root)), written directly
// from the SSZ merkleisation rules.
func SigningRoot(validatorIndex uint64) []byte {
	// hash_tree_root(BLSToExecutionChange): 3 fields -> 4 leaves
	idx := make([]byte, 8)
	binary.LittleEndian.PutUint64(idx, validatorIndex)
	l0 := pad32(idx)
	l1 := h2(lidoBLSPubkey[:32], pad32(lidoBLSPubkey[32:])) // Bytes48 = 2 chunks
	l2 := pad32(lidoExecutionAddress)
	l3 := make([]byte, 32)
	objRoot := h2(h2(l0, l1), h2(l2, l3))
	// compute_domain
	forkDataRoot := h2(pad32(genesisForkVersion[:]), genesisValidatorsRoot)
	domain := append(append([]byte{}, domainBLSToExecutionChange[:]...), forkDataRoot[:28]...)
	// hash_tree_root(SigningData)
	return h2(objRoot, domain)
}

// BakedIndex maps a baked-list position to the validator index using the
// embedded list text (data, not logic).
func BakedIndex(list string, pos int) (uint64, bool) {
	lines := strings.Split(list, "\n")
	if pos < 0 || pos >= len(lines) || lines[pos] == "" {
		return 0, false
	}
	v, err := strconv.ParseUint(lines[pos], 10, 64)
	if err != nil {
		return 0, false
	}
	return v, true
}
