#!/usr/bin/env python3
"""Generates MANIFEST.json from checks.json + not_applicable.json (keeps them in sync)."""
import json, os, subprocess
R = os.path.dirname(os.path.abspath(__file__))
cfg = json.load(open(os.path.join(R, "checks.json")))
na = json.load(open(os.path.join(R, "not_applicable.json")))
props = [json.loads(l)["id"] for l in open(os.path.join(R, "properties.jsonl"))]
hooks = subprocess.run(["git", "-C", "/repo", "log", "--format=%H %s", "--grep=^verif hook"], capture_output=True, text=True).stdout.strip().splitlines()
checks = []
for pid in props:
    if pid not in cfg["checks"]:
        continue
    c = cfg["checks"][pid]
    checks.append({
        "property_id": pid,
        "quick_cmd": "./check %s quick" % pid,
        "thorough_cmd": "./check %s thorough" % pid,
        "evidence_file": "evidence/%s.json" % pid,
        "replay_cmd_template": "./check %s --replay {path}" % pid,
        "engine": "+".join(sorted({p["engine"] for p in c["parts"]})),
        "level_claimed": {"category": c["level"], "text": c["level_text"], "design_ref": c["design_ref"]},
        "level_note": c["level_note"],
        "technique": c["technique"],
    })
nas = [{"property_id": p, "reason": na[p]} for p in props if p not in cfg["checks"]]
missing = [p for p in props if p not in cfg["checks"] and p not in na]
assert not missing, missing
engines = {}
for pid, c in cfg["checks"].items():
    for p in c["parts"]:
        engines.setdefault(p["engine"], set()).add(pid)
kinds = {
 "cluster": "full-system deterministic simulation: real hot nodes (Poll, HTTP handlers, FSMs, LevelDB) + real airgapped machines + simulated board in a testing/synctest bubble under a tape-driven scheduler with fault injection",
 "round": "single hot node / bare FSMInstance fed synthetic adversarial board histories next to a reference model and a dump/restore twin",
 "board": "real FileStorage with several handles and in-function yields under a tape-driven scheduler; porcupine linearizability of the recorded history",
}
m = {
 "version": 1,
 "setup_cmd": "./setup.sh",
 "hooks": {
  "guard": "verif",
  "enable": "go1.26.8 test -tags verif -c (GOTOOLCHAIN=local GOFLAGS=-mod=mod GOPROXY=off) from /verif/dst with `replace github.com/lidofinance/dc4bc => /repo`",
  "baseline_off_cmd": "cd /repo && GOFLAGS=-mod=mod GOPROXY=off GOSUMDB=off go test -vet=off -count=1 -timeout 25m ./...",
  "source_commits": [h.split()[0] for h in hooks][::-1],
  "add_only": True,
 },
 "engines": [{"name": e, "path": "dst/" + e, "serves_properties": sorted(ps), "kind_free_text": kinds.get(e, "")} for e, ps in sorted(engines.items())],
 "checks": checks,
 "not_applicable": nas,
 "notes": "All checks: ./check <ID> quick|thorough (rebuilds the engine from /repo's working tree with -tags verif; VERIF_SEED honoured). Known findings: known_findings.json. See DESIGN.md.",
}
json.dump(m, open(os.path.join(R, "MANIFEST.json"), "w"), indent=1)
print("MANIFEST.json: %d checks, %d not applicable" % (len(checks), len(nas)))
